//! C04 — mints happen only inside the sale window and only for entitled buyers.
//! Six vending minters and three open-edition minters x their compatible whitelist kinds.
//!
//! Histories walk the clock over every boundary instant (t-1ns, t, t+1ns) of the minter
//! start, the open-edition end, the whitelist window(s) and every stage edge, with
//! members, non-members, members of another stage, Merkle proofs (own, someone else's,
//! none), schedule updates (UpdateStartTime, UpdateEndTime, SetWhitelist) at their own
//! boundaries, and random interleavings.  Monitors are written from the property text and
//! look only at what the contracts' queries said right before each step and at what the
//! step did.  Every minter step is also printed for the Coq models (corr/C04Corr.v).
use crate::chain::{self, App};
use crate::oe_world::{OeCfg, OeOp, OeWorld, SpareWl, OE_VARIANTS};
use crate::util::*;
use crate::w_sale::*;
use crate::Args;
use cosmwasm_std::{coin, Addr};
use cw_multi_test::Executor;
use serde::{Deserialize, Serialize};
use serde_json::{json, Value};
use std::collections::{BTreeMap, BTreeSet};

const NS: u64 = 1_000_000_000;
const M1: &str = "buyer1";
const M2: &str = "buyer2";
const NM: &str = "buyer3";

/// an instant relative to world creation: seconds + signed nanoseconds
#[derive(Clone, Copy, Debug, Serialize, Deserialize, PartialEq, Eq, PartialOrd, Ord)]
pub struct T(pub u64, pub i64);
impl T {
    fn plus(self, d: i64) -> T {
        T(self.0, self.1 + d)
    }
    fn ns(self) -> i128 {
        self.0 as i128 * NS as i128 + self.1 as i128
    }
}

#[derive(Clone, Copy, Debug, Serialize, Deserialize, PartialEq, Eq)]
pub enum Kind {
    Plain,
    Tiered,
    Flex,
    TieredFlex,
    Merkle,
    TieredMerkle,
}
impl Kind {
    fn tiered(self) -> bool {
        matches!(self, Kind::Tiered | Kind::TieredFlex | Kind::TieredMerkle)
    }
    fn merkle(self) -> bool {
        matches!(self, Kind::Merkle | Kind::TieredMerkle)
    }
    fn flex(self) -> bool {
        matches!(self, Kind::Flex | Kind::TieredFlex)
    }
    fn code_key(self) -> &'static str {
        match self {
            Kind::Plain => "plain",
            Kind::Tiered => "tiered",
            Kind::Flex => "flex",
            Kind::TieredFlex => "tiered-flex",
            Kind::Merkle => "merkle",
            Kind::TieredMerkle => "tiered-merkle",
        }
    }
    fn name(self) -> &'static str {
        self.code_key()
    }
    /// index understood by oe_world::OeWl::from_u8
    fn oe_u8(self) -> u8 {
        match self {
            Kind::Plain => 0,
            Kind::Tiered => 1,
            Kind::Flex => 2,
            Kind::TieredFlex => 3,
            Kind::Merkle => 4,
            Kind::TieredMerkle => 5,
        }
    }
}

/// minter family + variant index inside it
#[derive(Clone, Copy, Debug, Serialize, Deserialize, PartialEq, Eq)]
pub struct Fam {
    pub oe: bool,
    pub variant: usize,
}
impl Fam {
    fn name(self) -> &'static str {
        if self.oe {
            OE_VARIANTS[self.variant].name
        } else {
            VARIANTS[self.variant].name
        }
    }
    fn merkle(self) -> bool {
        if self.oe {
            OE_VARIANTS[self.variant].merkle
        } else {
            VARIANTS[self.variant].merkle
        }
    }
    fn flex(self) -> bool {
        if self.oe {
            OE_VARIANTS[self.variant].flex
        } else {
            VARIANTS[self.variant].flex
        }
    }
    /// whitelist kinds the variant is meant to be paired with
    fn compatible(self) -> &'static [Kind] {
        if self.flex() {
            &[Kind::Flex, Kind::TieredFlex]
        } else if self.merkle() {
            if self.oe {
                // the open-edition Merkle minter accepts nothing but a verified proof
                &[Kind::Merkle, Kind::TieredMerkle]
            } else {
                &[Kind::Plain, Kind::Tiered, Kind::Merkle, Kind::TieredMerkle]
            }
        } else {
            &[Kind::Plain, Kind::Tiered]
        }
    }
    /// what an airdrop costs with the factory parameters the worlds are created with
    fn airdrop_funds(self) -> Vec<(String, u128)> {
        if self.oe {
            native(40)
        } else {
            vec![]
        }
    }
}
fn all_fams() -> Vec<Fam> {
    let mut v: Vec<Fam> = (0..6).map(|i| Fam { oe: false, variant: i }).collect();
    v.extend((0..3).map(|i| Fam { oe: true, variant: i }));
    v
}

#[derive(Clone, Debug, Serialize, Deserialize)]
pub struct StageSpec {
    pub start: T,
    pub end: T,
    pub price: u128,
    pub members: Vec<String>,
    pub stage_limit: Option<u32>,
}
#[derive(Clone, Debug, Serialize, Deserialize)]
pub struct WlSpec {
    pub kind: Kind,
    pub stages: Vec<StageSpec>,
    pub limit: u32,
    /// Merkle leaf format: 0 sender; 1 sender+allocation; 2 stage+sender; 3 stage+sender+allocation
    pub leaf_fmt: u8,
    /// tiered list kinds, instantiate shape: member lists sent AFTER the per-stage ones (more
    /// lists than stages).  They name buyers who belong to no stage: the ledger gives them none.
    #[serde(default)]
    pub extra_lists: Vec<Vec<String>>,
    /// tiered list kinds, instantiate shape: this many of the last per-stage lists are NOT sent
    /// (fewer lists than stages; the stages without a list have no members)
    #[serde(default)]
    pub short_lists: usize,
}

#[derive(Clone, Debug, Serialize, Deserialize)]
pub enum COp {
    At(T),
    /// the plain mint message (Merkle variants: all three arguments absent)
    Mint { who: String, funds: Vec<(String, u128)> },
    /// explicit Merkle arguments (malformed / adversarial streams)
    MintArgs { who: String, funds: Vec<(String, u128)>, stage: Option<u32>, proof: Option<Vec<String>>, allocation: Option<u32> },
    /// Mint with Merkle arguments: the proof is the one of `proof_for`'s leaf in tree `tree` of
    /// the whitelist in `slot` (None: no proof is sent); stage/allocation are that tree's
    MintP { who: String, funds: Vec<(String, u128)>, slot: usize, tree: usize, proof_for: Option<String> },
    MintTo { who: String, recipient: String, funds: Vec<(String, u128)> },
    /// vending only
    MintFor { who: String, token_id: u32, recipient: String },
    UpdateStart { who: String, t: T },
    /// open edition only
    UpdateEnd { who: String, t: T },
    /// SetWhitelist{address of the whitelist in `slot`}
    Attach { who: String, slot: usize },
    /// the whitelist admin adds `who` to stage 0 / the list of the attached whitelist
    WlAddMember { who: String },
    /// price-affecting admin calls
    UpdateMintPrice { who: String, price: u128 },
    /// vending only
    UpdateDiscount { who: String, price: u128 },
    /// vending only
    RemoveDiscount { who: String },
    UpdatePal { who: String, limit: u32 },
    /// migrate the minter to its own code id (wasm admin = creator); `stored` rewrites cw2 first
    Migrate {
        who: String,
        #[serde(default)]
        stored: Option<(String, String)>,
    },
    /// governance raises / lowers the factory's minimum mint price
    SudoMinPrice { price: u128 },
    // ---- whitelist administration (sender `who`; the whitelist in `slot`, attached or not) ----
    WlAdd { who: String, slot: usize, stage: u32, members: Vec<String> },
    WlRemove { who: String, slot: usize, stage: u32, members: Vec<String> },
    /// tiered list kinds
    WlAddStage { who: String, slot: usize, stage: StageSpec },
    /// tiered list kinds: removes the stage and every stage after it, with their members
    WlRemoveStage { who: String, slot: usize, stage: u32 },
    /// tiered kinds: UpdateStageConfig; the others: UpdateStartTime / UpdateEndTime (price ignored)
    WlUpdateStage { who: String, slot: usize, stage: u32, start: Option<T>, end: Option<T>, price: Option<u128> },
}

#[derive(Clone, Debug, Serialize, Deserialize)]
pub struct Case {
    pub label: String,
    pub fam: Fam,
    pub num_tokens: u32,
    pub pal: u32,
    pub price: u128,
    pub start_in: u64,
    /// open edition: end time (None = no end time; then num_tokens is the cap)
    pub end_in: Option<u64>,
    /// whitelists created with the world (before the balance snapshot), by slot; a case that
    /// wants one attached from the beginning starts with an Attach at creation time
    pub wls: Vec<WlSpec>,
    pub ops: Vec<COp>,
    /// open edition: NFT metadata mode (true = OnChainMetadata with an sg721-metadata-onchain collection)
    #[serde(default)]
    pub onchain: bool,
    /// creation-time attach: instead of running `ops`, a second minter is created through the
    /// world's factory at instant `at` with `whitelist` = the whitelist wls[0]
    #[serde(default)]
    pub create_at: Option<T>,
}

// ---------- Merkle trees as the two Merkle whitelists verify them ----------
fn h_plain(b: &[u8]) -> Vec<u8> {
    use sha2::{Digest, Sha256};
    Sha256::digest(b).to_vec()
}
fn h_tiered(b: &[u8]) -> Vec<u8> {
    blake3::hash(b).as_bytes()[..16].to_vec()
}
fn pair(h: fn(&[u8]) -> Vec<u8>, a: &[u8], b: &[u8]) -> Vec<u8> {
    let (x, y) = if a <= b { (a, b) } else { (b, a) };
    let mut c = x.to_vec();
    c.extend_from_slice(y);
    h(&c)
}
/// root and the proof of leaf `idx` (sorted-pair hashing, an odd node is promoted)
fn merkle(h: fn(&[u8]) -> Vec<u8>, leaves: &[String], idx: Option<usize>) -> (String, Vec<String>) {
    let mut level: Vec<Vec<u8>> = leaves.iter().map(|l| h(l.as_bytes())).collect();
    let mut i = idx.unwrap_or(0);
    let mut proof = vec![];
    while level.len() > 1 {
        if i ^ 1 < level.len() {
            proof.push(hex::encode(&level[i ^ 1]));
        }
        let mut next = vec![];
        for k in (0..level.len()).step_by(2) {
            if k + 1 < level.len() {
                next.push(pair(h, &level[k], &level[k + 1]));
            } else {
                next.push(level[k].clone());
            }
        }
        level = next;
        i /= 2;
    }
    (hex::encode(&level[0]), if idx.is_some() { proof } else { vec![] })
}

impl WlSpec {
    fn hasher(&self) -> fn(&[u8]) -> Vec<u8> {
        if self.kind == Kind::TieredMerkle {
            h_tiered
        } else {
            h_plain
        }
    }
    /// (stage, allocation) arguments bound into the leaves of tree `tree`
    fn leaf_args(&self, tree: usize) -> (Option<u32>, Option<u32>) {
        let st = Some(tree as u32 + 1);
        let al = Some(self.limit);
        match self.leaf_fmt {
            0 => (None, None),
            1 => (None, al),
            2 => (st, None),
            _ => (st, al),
        }
    }
    fn leaf(&self, tree: usize, who: &str) -> String {
        match self.leaf_args(tree) {
            (None, Some(a)) => format!("{}{}", who, a),
            (Some(s), None) => format!("{}{}", s, who),
            (Some(s), Some(a)) => format!("{}{}{}", s, who, a),
            (None, None) => who.to_string(),
        }
    }
    fn leaves(&self, tree: usize) -> Vec<String> {
        let mut v: Vec<String> = self.stages[tree].members.iter().map(|m| self.leaf(tree, m)).collect();
        v.push("padding-a".into());
        v.push("padding-b".into());
        v.push("padding-c".into());
        v
    }
    fn root(&self, tree: usize) -> String {
        merkle(self.hasher(), &self.leaves(tree), None).0
    }
    /// proof of `who`'s leaf in `tree`; for a non-member the proof of the first padding leaf
    fn proof(&self, tree: usize, who: &str) -> Vec<String> {
        let ls = self.leaves(tree);
        let idx = ls.iter().position(|l| *l == self.leaf(tree, who)).unwrap_or(self.stages[tree].members.len());
        merkle(self.hasher(), &ls, Some(idx)).1
    }
}

// ---------- the whitelists of a running case ----------
/// The harness's own ledger of a whitelist: what its schedule, prices and per-stage member
/// lists are INTENDED to be, from the creation message and from every admin operation that
/// the whitelist accepted, with the documented semantics (add_members adds to that stage,
/// remove_members removes from it, add_stage appends a stage with its own list,
/// remove_stage(i) drops stage i and every later stage together with their members,
/// update_stage_config changes times / price of that stage only).  Never read back from the
/// contract.  (Merkle kinds: the trees are fixed at creation; only times / prices can change.)
struct WlInfo {
    spec: WlSpec,
    addr: Addr,
    /// absolute (start, end) per stage
    windows: Vec<(u64, u64)>,
    /// members added to stage 0 after creation (WlAddMember)
    added: BTreeSet<String>,
}
impl WlInfo {
    /// the property's activity rule, from the windows the whitelist was created with
    fn active_stage(&self, now: u64) -> Option<usize> {
        if self.spec.kind.tiered() {
            self.windows.iter().position(|(s, e)| *s <= now && now <= *e)
        } else if self.windows[0].0 <= now && now < self.windows[0].1 {
            Some(0)
        } else {
            None
        }
    }
    fn listed(&self, stage: usize, who: &str) -> bool {
        self.spec.stages[stage].members.iter().any(|m| m == who) || (stage == 0 && self.added.contains(who))
    }
}

fn ts(n: u64) -> Value {
    json!(n.to_string())
}
fn coinv(amount: u128, denom: &str) -> Value {
    json!({"amount": amount.to_string(), "denom": denom})
}

/// instantiate message and creation fee of a whitelist of the given kind
fn wl_msg(spec: &WlSpec, windows: &[(u64, u64)]) -> (Value, u128) {
    let flexm = |ms: &Vec<String>| -> Vec<Value> { ms.iter().map(|m| json!({"address": m, "mint_count": spec.limit})).collect() };
    let s0 = &spec.stages[0];
    // the member lists as sent: one per stage (minus the ones deliberately left out), then the surplus ones
    let mut lists: Vec<Vec<String>> = spec.stages.iter().map(|s| s.members.clone()).collect();
    lists.truncate(lists.len().saturating_sub(spec.short_lists));
    lists.extend(spec.extra_lists.iter().cloned());
    let stages_json = |with_pal: bool| -> Vec<Value> {
        spec.stages
            .iter()
            .enumerate()
            .map(|(i, s)| {
                let mut v = json!({"name": format!("stage{}", i + 1), "start_time": ts(windows[i].0), "end_time": ts(windows[i].1),
                                   "mint_price": coinv(s.price, NATIVE), "mint_count_limit": s.stage_limit});
                if with_pal {
                    v["per_address_limit"] = json!(spec.limit);
                }
                v
            })
            .collect()
    };
    match spec.kind {
        Kind::Plain => (
            json!({"members": s0.members, "start_time": ts(windows[0].0), "end_time": ts(windows[0].1),
                   "mint_price": coinv(s0.price, NATIVE), "per_address_limit": spec.limit, "member_limit": 1000,
                   "admins": [CREATOR], "admins_mutable": true}),
            100_000_000u128,
        ),
        Kind::Flex => (
            json!({"members": flexm(&s0.members), "start_time": ts(windows[0].0), "end_time": ts(windows[0].1),
                   "mint_price": coinv(s0.price, NATIVE), "member_limit": 1000, "admins": [CREATOR],
                   "admins_mutable": true, "whale_cap": null}),
            100_000_000,
        ),
        Kind::Tiered => (
            json!({"members": lists.iter().map(|l| json!(l)).collect::<Vec<_>>(), "stages": stages_json(true),
                   "member_limit": 1000, "admins": [CREATOR], "admins_mutable": true}),
            100_000_000,
        ),
        Kind::TieredFlex => (
            json!({"members": lists.iter().map(|l| json!(flexm(l))).collect::<Vec<_>>(), "stages": stages_json(false),
                   "member_limit": 1000, "admins": [CREATOR], "admins_mutable": true, "whale_cap": null}),
            100_000_000,
        ),
        Kind::Merkle => (
            json!({"merkle_root": spec.root(0), "merkle_tree_uri": null, "start_time": ts(windows[0].0), "end_time": ts(windows[0].1),
                   "mint_price": coinv(s0.price, NATIVE), "per_address_limit": spec.limit,
                   "admins": [CREATOR], "admins_mutable": true}),
            1_000_000_000,
        ),
        Kind::TieredMerkle => (
            json!({"stages": stages_json(true), "merkle_roots": (0..spec.stages.len()).map(|i| spec.root(i)).collect::<Vec<_>>(),
                   "merkle_tree_uris": null, "admins": [CREATOR], "admins_mutable": true}),
            1_000_000_000,
        ),
    }
}

type MArgs = (Option<u32>, Option<Vec<String>>, Option<u32>);

/// what the monitors and the driver need from a sale world (vending or open edition)
trait World {
    fn app(&self) -> &App;
    fn t0(&self) -> u64;
    fn abs(&self, t: T) -> u64 {
        (self.t0() as i128 + t.ns()) as u64
    }
    /// instantiate a whitelist (admin and payer: CREATOR) and make it attachable as `slot`
    fn add_whitelist(&mut self, slot: usize, kind: Kind, msg: &Value, fee: u128) -> Result<Addr, String>;
    fn minter_config(&self) -> Value;
    fn minter_addr(&self) -> String;
    fn mintable(&self) -> Option<u64>;
    fn mint_count(&self, who: &str) -> u64;
    fn balances_raw(&self) -> BTreeMap<(String, String), u128>;
    fn snapshot(&mut self) -> (String, String);
    fn finish(&mut self, init: &str, bal: &str, steps: &[String], probes: &[String]) -> String;
    fn at(&mut self, t: T);
    fn mint(&mut self, who: &str, funds: &[(String, u128)], margs: &Option<MArgs>) -> StepOut;
    fn mint_to(&mut self, who: &str, recipient: &str, funds: &[(String, u128)]) -> StepOut;
    fn mint_for(&mut self, who: &str, token_id: u32, recipient: &str) -> Option<StepOut>;
    fn update_start(&mut self, who: &str, t: T) -> StepOut;
    fn update_end(&mut self, who: &str, t: T) -> Option<StepOut>;
    fn attach(&mut self, who: &str, slot: usize, wl: &Addr, kind: Kind) -> StepOut;
    fn exec_other(&mut self, who: &str, contract: &Addr, msg: &Value) -> bool;
    fn update_mint_price(&mut self, who: &str, price: u128) -> StepOut;
    fn update_discount(&mut self, who: &str, price: u128) -> Option<StepOut>;
    fn remove_discount(&mut self, who: &str) -> Option<StepOut>;
    fn update_pal(&mut self, who: &str, limit: u32) -> StepOut;
    fn migrate(&mut self, who: &str, stored: &Option<(String, String)>) -> StepOut;
    fn sudo_min_price(&mut self, price: u128);
    /// tokens of the collection whose stored metadata is not what the edition was created with
    fn metadata_violations(&self) -> Vec<String> {
        vec![]
    }
}

fn instantiate_wl(app: &mut App, code_id: u64, msg: &Value, fee: u128) -> Result<Addr, String> {
    let funds = if fee > 0 { vec![coin(fee, NATIVE)] } else { vec![] };
    match crate::util::catch(|| app.instantiate_contract(code_id, Addr::unchecked(CREATOR), msg, &funds, "wl", None)) {
        Ok(Ok(a)) => Ok(a),
        Ok(Err(e)) => Err(format!("whitelist: {:#}", e)),
        Err(p) => Err(p),
    }
}

// ----- vending -----
struct VWorld(SaleWorld);
impl VWorld {
    /// SetWhitelist{existing address} as a recorded minter step (w_sale's own SetWhitelist op
    /// creates its whitelist on the spot, which cannot express replacing by a given one)
    fn attach_step(&mut self, who: &str, wl: &Addr) -> StepOut {
        let w = &mut self.0;
        let now = chain::now(&w.app);
        w.proof_ctx = None;
        let fp = w.fp_coq();
        let wv = w.cur_wl_view(who);
        let before_digest = chain::storage_digest(&w.app, &w.minter);
        let before_bal = w.balances_raw();
        let before_tokens = w.num_tokens_collection();
        let sender_id = w.addrs.id(who);
        let minter = w.minter.clone();
        let minter_id = w.addrs.id(minter.as_str());
        let env = format!("(mkEnv {} {} [] {})", now, sender_id, minter_id);
        let new_view = w.wl_view(wl, who).unwrap_or_else(|| "None".into());
        let res = chain::exec(&mut w.app, who, &minter, &json!({"set_whitelist": {"whitelist": wl.to_string()}}), &[]);
        let ok = res.is_ok();
        let coq_op = format!("(OSetWhitelist true {} {})", w.addrs.id(wl.as_str()), new_view);
        let wv_after = w.cur_wl_view(who);
        let obs = w.observe();
        let obs_coq = coq_list(&obs.iter().map(|x| x.to_string()).collect::<Vec<_>>());
        let bal = w.balances_coq();
        let coq = format!("(mkStep {} {} {} {} {} None {} {} {})", env, fp, wv, coq_op, coq_bool(ok), wv_after, obs_coq, bal);
        let mut err = res.err();
        if !ok {
            let after_digest = chain::storage_digest(&w.app, &w.minter);
            if after_digest != before_digest || w.balances_raw() != before_bal || w.num_tokens_collection() != before_tokens {
                err = Some(format!("STATE-CHANGED-ON-FAILURE: {}", err.unwrap_or_default()));
            }
        }
        StepOut { coq: Some(coq), ok, err, minted: None, is_minter_step: true }
    }
}
impl World for VWorld {
    fn app(&self) -> &App {
        &self.0.app
    }
    fn t0(&self) -> u64 {
        self.0.t0
    }
    fn add_whitelist(&mut self, _slot: usize, kind: Kind, msg: &Value, fee: u128) -> Result<Addr, String> {
        self.0.make_whitelist_raw(kind.code_key(), msg, fee)
    }
    fn minter_config(&self) -> Value {
        self.0.minter_config()
    }
    fn minter_addr(&self) -> String {
        self.0.minter.to_string()
    }
    fn mintable(&self) -> Option<u64> {
        Some(self.0.mintable())
    }
    fn mint_count(&self, who: &str) -> u64 {
        self.0.mint_count(who).0
    }
    fn balances_raw(&self) -> BTreeMap<(String, String), u128> {
        self.0.balances_raw()
    }
    fn snapshot(&mut self) -> (String, String) {
        (self.0.init_state_coq(), self.0.balances_coq())
    }
    fn finish(&mut self, init: &str, bal: &str, steps: &[String], probes: &[String]) -> String {
        format!("(mkC04 {} {})", case_coq(&mut self.0, init, bal, steps), coq_list(probes))
    }
    fn at(&mut self, t: T) {
        self.0.run(&Op::At { secs: t.0, nanos: t.1 });
    }
    fn mint(&mut self, who: &str, funds: &[(String, u128)], margs: &Option<MArgs>) -> StepOut {
        match margs {
            Some((stage, proof, allocation)) if self.0.v.merkle => self.0.run(&Op::MintM {
                who: who.into(),
                funds: funds.to_vec(),
                stage: *stage,
                proof: proof.clone(),
                allocation: *allocation,
            }),
            _ => self.0.run(&Op::Mint { who: who.into(), funds: funds.to_vec() }),
        }
    }
    fn mint_to(&mut self, who: &str, recipient: &str, funds: &[(String, u128)]) -> StepOut {
        self.0.run(&Op::MintTo { who: who.into(), recipient: recipient.into(), funds: funds.to_vec() })
    }
    fn mint_for(&mut self, who: &str, token_id: u32, recipient: &str) -> Option<StepOut> {
        Some(self.0.run(&Op::MintFor { who: who.into(), token_id, recipient: recipient.into(), funds: vec![] }))
    }
    fn update_start(&mut self, who: &str, t: T) -> StepOut {
        self.0.run(&Op::UpdateStartTime { who: who.into(), secs: t.0, nanos: t.1 })
    }
    fn update_end(&mut self, _who: &str, _t: T) -> Option<StepOut> {
        None
    }
    fn attach(&mut self, who: &str, _slot: usize, wl: &Addr, _kind: Kind) -> StepOut {
        self.attach_step(who, wl)
    }
    fn exec_other(&mut self, who: &str, contract: &Addr, msg: &Value) -> bool {
        chain::exec(&mut self.0.app, who, contract, msg, &[]).is_ok()
    }
    fn update_mint_price(&mut self, who: &str, price: u128) -> StepOut {
        self.0.run(&Op::UpdateMintPrice { who: who.into(), price })
    }
    fn update_discount(&mut self, who: &str, price: u128) -> Option<StepOut> {
        Some(self.0.run(&Op::UpdateDiscountPrice { who: who.into(), price }))
    }
    fn remove_discount(&mut self, who: &str) -> Option<StepOut> {
        Some(self.0.run(&Op::RemoveDiscountPrice { who: who.into() }))
    }
    fn update_pal(&mut self, who: &str, limit: u32) -> StepOut {
        self.0.run(&Op::UpdatePerAddressLimit { who: who.into(), limit })
    }
    fn migrate(&mut self, who: &str, stored: &Option<(String, String)>) -> StepOut {
        self.0.run(&Op::Migrate { who: who.into(), stored: stored.clone() })
    }
    fn sudo_min_price(&mut self, price: u128) {
        self.0.run(&Op::SudoParams { min_price: Some(price), mint_fee_bps: None, airdrop_price: None, airdrop_fee_bps: None, offset: None, max_pal: None, shuffle_fee: None });
    }
}

// ----- open edition -----
struct OWorld(OeWorld);
impl World for OWorld {
    fn metadata_violations(&self) -> Vec<String> {
        self.0.metadata_violations()
    }
    fn app(&self) -> &App {
        &self.0.app
    }
    fn t0(&self) -> u64 {
        self.0.t0
    }
    fn add_whitelist(&mut self, slot: usize, kind: Kind, msg: &Value, fee: u128) -> Result<Addr, String> {
        let code = self.0.wl_code[kind.code_key()];
        let a = instantiate_wl(&mut self.0.app, code, msg, fee)?;
        self.0.addrs.id(a.as_str());
        // attachable through OeOp::SetWhitelist{spare: slot}
        while self.0.spares.len() <= slot {
            self.0.spares.push(None);
            self.0.cfg.spares.push(SpareWl { kind: kind.oe_u8(), start_in: 0, end_in: 0, price: 0, ibc: false });
        }
        self.0.spares[slot] = Some(a.clone());
        self.0.cfg.spares[slot].kind = kind.oe_u8();
        Ok(a)
    }
    fn minter_config(&self) -> Value {
        self.0.minter_config()
    }
    fn minter_addr(&self) -> String {
        self.0.minter.to_string()
    }
    fn mintable(&self) -> Option<u64> {
        self.0.mintable()
    }
    fn mint_count(&self, who: &str) -> u64 {
        self.0.mint_count(who).0
    }
    fn balances_raw(&self) -> BTreeMap<(String, String), u128> {
        self.0.balances_raw()
    }
    fn snapshot(&mut self) -> (String, String) {
        (self.0.init_state_coq(), self.0.balances_coq())
    }
    fn finish(&mut self, init: &str, bal: &str, steps: &[String], probes: &[String]) -> String {
        format!("(mkC04O {} {})", self.0.case_coq(init, bal, steps), coq_list(probes))
    }
    fn at(&mut self, t: T) {
        self.0.run(&OeOp::At { secs: t.0, nanos: t.1 });
    }
    fn mint(&mut self, who: &str, funds: &[(String, u128)], margs: &Option<MArgs>) -> StepOut {
        match margs {
            Some((stage, proof, allocation)) => self.0.run(&OeOp::MintM {
                who: who.into(),
                funds: funds.to_vec(),
                stage: *stage,
                proof: proof.clone(),
                allocation: *allocation,
            }),
            None => self.0.run(&OeOp::MintM { who: who.into(), funds: funds.to_vec(), stage: None, proof: None, allocation: None }),
        }
    }
    fn mint_to(&mut self, who: &str, recipient: &str, funds: &[(String, u128)]) -> StepOut {
        self.0.run(&OeOp::MintTo { who: who.into(), recipient: recipient.into(), funds: funds.to_vec() })
    }
    fn mint_for(&mut self, _who: &str, _token_id: u32, _recipient: &str) -> Option<StepOut> {
        None
    }
    fn update_start(&mut self, who: &str, t: T) -> StepOut {
        self.0.run(&OeOp::UpdateStartTime { who: who.into(), secs: t.0, nanos: t.1 })
    }
    fn update_end(&mut self, who: &str, t: T) -> Option<StepOut> {
        Some(self.0.run(&OeOp::UpdateEndTime { who: who.into(), secs: t.0, nanos: t.1 }))
    }
    fn attach(&mut self, who: &str, slot: usize, _wl: &Addr, _kind: Kind) -> StepOut {
        self.0.run(&OeOp::SetWhitelist { who: who.into(), spare: slot })
    }
    fn exec_other(&mut self, who: &str, contract: &Addr, msg: &Value) -> bool {
        chain::exec(&mut self.0.app, who, contract, msg, &[]).is_ok()
    }
    fn update_mint_price(&mut self, who: &str, price: u128) -> StepOut {
        self.0.run(&OeOp::UpdateMintPrice { who: who.into(), price })
    }
    fn update_discount(&mut self, _who: &str, _price: u128) -> Option<StepOut> {
        None
    }
    fn remove_discount(&mut self, _who: &str) -> Option<StepOut> {
        None
    }
    fn update_pal(&mut self, who: &str, limit: u32) -> StepOut {
        self.0.run(&OeOp::UpdatePerAddressLimit { who: who.into(), limit })
    }
    fn migrate(&mut self, who: &str, stored: &Option<(String, String)>) -> StepOut {
        self.0.run(&OeOp::Migrate { who: who.into(), stored: stored.clone() })
    }
    fn sudo_min_price(&mut self, price: u128) {
        self.0.run(&OeOp::SudoParams { min_price: Some(price), mint_fee_bps: None, airdrop_price: None, airdrop_fee_bps: None, offset: None, max_pal: None, max_token_limit: None, dev: None });
    }
}

fn new_world(c: &Case) -> Result<Box<dyn World>, String> {
    if c.fam.oe {
        let mut cfg = OeCfg::basic(c.fam.variant);
        cfg.fp.max_token_limit = 60;
        cfg.num_tokens = if c.num_tokens == 0 { None } else { Some(c.num_tokens) };
        cfg.end_in_secs = c.end_in;
        cfg.pal = c.pal;
        cfg.price = c.price;
        cfg.start_in_secs = c.start_in;
        cfg.onchain = c.onchain;
        Ok(Box::new(OWorld(OeWorld::new(cfg)?)))
    } else {
        let mut cfg = SaleCfg::basic(c.fam.variant);
        cfg.num_tokens = c.num_tokens;
        cfg.pal = c.pal;
        cfg.price = c.price;
        cfg.start_in_secs = c.start_in;
        Ok(Box::new(VWorld(SaleWorld::new(cfg)?)))
    }
}

// ---------- what the contracts say right before a step ----------
struct Pre {
    now: u64,
    start: u64,
    end: Option<u64>,
    wl: Option<String>,
    /// Config.is_active and the IsActive query of the attached whitelist
    active_cfg: Option<bool>,
    active_q: Option<bool>,
    wl_price: Option<(u128, String)>,
    stage_id: Option<u64>,
    public_price: (u128, String),
    mintable: Option<u64>,
    pal: u64,
    /// MintPrice.current_price as the minter reports it (None: the query fails)
    current_price: Option<(u128, String)>,
}
fn q(app: &App, a: &str, m: Value) -> Option<Value> {
    app.wrap().query_wasm_smart::<Value>(Addr::unchecked(a), &m).ok()
}
fn read_pre(w: &dyn World) -> Pre {
    let c = w.minter_config();
    let start: u64 = c["start_time"].as_str().unwrap().parse().unwrap();
    let end: Option<u64> = c.get("end_time").and_then(|e| e.as_str()).map(|s| s.parse().unwrap());
    let wl = c["whitelist"].as_str().map(|s| s.to_string());
    let p = if c.get("discount_price").map(|d| d.get("amount").is_some()).unwrap_or(false) { &c["discount_price"] } else { &c["mint_price"] };
    let public_price = (p["amount"].as_str().unwrap().parse().unwrap(), p["denom"].as_str().unwrap().to_string());
    let mut pre = Pre {
        now: chain::now(w.app()),
        start,
        end,
        wl: wl.clone(),
        active_cfg: None,
        active_q: None,
        wl_price: None,
        stage_id: None,
        public_price,
        mintable: w.mintable(),
        pal: c["per_address_limit"].as_u64().unwrap(),
        current_price: None,
    };
    pre.current_price = q(w.app(), &w.minter_addr(), json!({"mint_price": {}})).and_then(|v| {
        let c = &v["current_price"];
        Some((c["amount"].as_str()?.parse().ok()?, c["denom"].as_str()?.to_string()))
    });
    if let Some(a) = wl {
        if let Some(cfg) = q(w.app(), &a, json!({"config": {}})) {
            pre.active_cfg = cfg["is_active"].as_bool();
            pre.wl_price = cfg["mint_price"]["amount"]
                .as_str()
                .and_then(|x| x.parse().ok())
                .map(|x| (x, cfg["mint_price"]["denom"].as_str().unwrap_or("").to_string()));
        }
        pre.active_q = q(w.app(), &a, json!({"is_active": {}})).and_then(|v| v["is_active"].as_bool());
        pre.stage_id = q(w.app(), &a, json!({"active_stage_id": {}})).and_then(|v| v.as_u64());
    }
    pre
}

fn kind_of(op: &COp) -> &'static str {
    match op {
        COp::At(_) => "at",
        COp::Mint { .. } => "mint",
        COp::MintArgs { .. } | COp::MintP { .. } => "mint_merkle",
        COp::MintTo { .. } => "mint_to",
        COp::MintFor { .. } => "mint_for",
        COp::UpdateStart { .. } => "update_start_time",
        COp::UpdateEnd { .. } => "update_end_time",
        COp::Attach { .. } => "set_whitelist",
        COp::WlAddMember { .. } => "wl_add_member",
        COp::UpdateMintPrice { .. } => "update_mint_price",
        COp::UpdateDiscount { .. } => "update_discount_price",
        COp::RemoveDiscount { .. } => "remove_discount_price",
        COp::UpdatePal { .. } => "update_per_address_limit",
        COp::Migrate { .. } => "migrate",
        COp::SudoMinPrice { .. } => "sudo_min_price",
        COp::WlAdd { .. } => "wl_add_members",
        COp::WlRemove { .. } => "wl_remove_members",
        COp::WlAddStage { .. } => "wl_add_stage",
        COp::WlRemoveStage { .. } => "wl_remove_stage",
        COp::WlUpdateStage { .. } => "wl_update_stage",
    }
}

pub struct CaseResult {
    pub coq: Option<String>,
    pub steps: u64,
    pub ok_steps: u64,
    pub violations: Vec<(String, String, usize)>, // (key, what, op index)
    pub hist: BTreeMap<String, u64>,
    pub instants: BTreeSet<String>,
    /// things worth telling that are not violations of the property text
    pub observations: BTreeMap<String, u64>,
    /// whitelist admin operations executed
    pub wl_ops: u64,
}

/// run one whitelist admin operation on the real whitelist; if (and only if) the whitelist
/// accepted it, apply its documented meaning to the ledger.  Returns (kind name, accepted).
fn wl_admin(w: &mut dyn World, wls: &mut Vec<WlInfo>, cop: &COp) -> (&'static str, bool) {
    let slot = match cop {
        COp::WlAdd { slot, .. } | COp::WlRemove { slot, .. } | COp::WlAddStage { slot, .. } | COp::WlRemoveStage { slot, .. } | COp::WlUpdateStage { slot, .. } => *slot,
        _ => return ("none", false),
    };
    let Some(i) = wls.get_mut(slot) else { return ("none", false) };
    let kind = i.spec.kind;
    let addr = i.addr.clone();
    let limit = i.spec.limit;
    let memberv = |ms: &Vec<String>| -> Value {
        if kind.flex() {
            json!(ms.iter().map(|m| json!({"address": m, "mint_count": limit})).collect::<Vec<_>>())
        } else {
            json!(ms)
        }
    };
    let t0 = w.t0();
    let abs = |t: T| (t0 as i128 + t.ns()) as u64;
    let mut accepted = false;
    match cop {
        COp::WlAdd { who, stage, members, .. } => {
            let msg = if kind.tiered() { json!({"add_members": {"to_add": memberv(members), "stage_id": stage}}) } else { json!({"add_members": {"to_add": memberv(members)}}) };
            if !kind.merkle() && w.exec_other(who, &addr, &msg) {
                accepted = true;
                let st = if kind.tiered() { *stage as usize } else { 0 };
                if let Some(sg) = i.spec.stages.get_mut(st) {
                    for m in members {
                        if !sg.members.contains(m) {
                            sg.members.push(m.clone());
                        }
                    }
                }
            }
        }
        COp::WlRemove { who, stage, members, .. } => {
            let msg = if kind.tiered() { json!({"remove_members": {"to_remove": members, "stage_id": stage}}) } else { json!({"remove_members": {"to_remove": members}}) };
            if !kind.merkle() && w.exec_other(who, &addr, &msg) {
                accepted = true;
                let st = if kind.tiered() { *stage as usize } else { 0 };
                if let Some(sg) = i.spec.stages.get_mut(st) {
                    sg.members.retain(|m| !members.contains(m));
                }
                if st == 0 {
                    for m in members {
                        i.added.remove(m);
                    }
                }
            }
        }
        COp::WlAddStage { who, stage, .. } => {
            if kind.tiered() && !kind.merkle() {
                let mut sj = json!({"name": format!("added{}", i.spec.stages.len() + 1), "start_time": ts(abs(stage.start)), "end_time": ts(abs(stage.end)),
                                    "mint_price": coinv(stage.price, NATIVE), "mint_count_limit": stage.stage_limit});
                if !kind.flex() {
                    sj["per_address_limit"] = json!(limit);
                }
                let msg = json!({"add_stage": {"stage": sj, "members": memberv(&stage.members)}});
                if w.exec_other(who, &addr, &msg) {
                    accepted = true;
                    let mut sg = stage.clone();
                    sg.members.sort();
                    sg.members.dedup();
                    i.spec.stages.push(sg);
                }
            }
        }
        COp::WlRemoveStage { who, stage, .. } => {
            if kind.tiered() && !kind.merkle() && w.exec_other(who, &addr, &json!({"remove_stage": {"stage_id": stage}})) {
                accepted = true;
                i.spec.stages.truncate(*stage as usize);
                if *stage == 0 {
                    i.added.clear();
                }
            }
        }
        COp::WlUpdateStage { who, stage, start, end, price, .. } => {
            if kind.tiered() {
                let mut m = json!({"stage_id": stage, "name": null, "start_time": start.map(|t| ts(abs(t))), "end_time": end.map(|t| ts(abs(t))),
                                   "mint_price": price.map(|p| coinv(p, NATIVE)), "mint_count_limit": null});
                if !kind.flex() {
                    m["per_address_limit"] = Value::Null;
                }
                if (*stage as usize) < i.spec.stages.len() && w.exec_other(who, &addr, &json!({"update_stage_config": m})) {
                    accepted = true;
                    let sg = &mut i.spec.stages[*stage as usize];
                    if let Some(t) = start {
                        sg.start = *t;
                    }
                    if let Some(t) = end {
                        sg.end = *t;
                    }
                    if let Some(p) = price {
                        sg.price = *p;
                    }
                }
            } else {
                // two separate messages, each accepted or rejected on its own
                if let Some(t) = start {
                    if w.exec_other(who, &addr, &json!({"update_start_time": ts(abs(*t))})) {
                        accepted = true;
                        i.spec.stages[0].start = *t;
                    }
                }
                if let Some(t) = end {
                    if w.exec_other(who, &addr, &json!({"update_end_time": ts(abs(*t))})) {
                        accepted = true;
                        i.spec.stages[0].end = *t;
                    }
                }
            }
        }
        _ => {}
    }
    i.windows = i.spec.stages.iter().map(|s| (abs(s.start), abs(s.end))).collect();
    (kind.name(), accepted)
}

/// Creation-time attach.  The property: "a whitelist can only be attached ... never while the
/// current or the new whitelist is active".  A minter is created through the factory with
/// `init_msg.whitelist` = a whitelist that is not started / active / ended at that instant; a
/// creation that succeeds with an active whitelist is reported, and a member's mint before
/// the public start on the minter so created is tried as well.
fn run_create_probe(c: &Case, at_: T, res: &mut CaseResult) {
    let vname = c.fam.name();
    let spec = &c.wls[0];
    // a world of the same family gives the chain, the stored codes and the factory
    let (mut app, factory, code, t0) = if c.fam.oe {
        match OeWorld::new(OeCfg::basic(c.fam.variant)) {
            Ok(w) => {
                let code = w.wl_code[spec.kind.code_key()];
                (w.app, w.factory, code, w.t0)
            }
            Err(_) => return,
        }
    } else {
        match SaleWorld::new(SaleCfg::basic(c.fam.variant)) {
            Ok(w) => {
                let code = w.wl_code[spec.kind.code_key()];
                (w.app, w.factory, code, w.t0)
            }
            Err(_) => return,
        }
    };
    let abs = |t: T| (t0 as i128 + t.ns()) as u64;
    let windows: Vec<(u64, u64)> = spec.stages.iter().map(|s| (abs(s.start), abs(s.end))).collect();
    let (msg, fee) = wl_msg(spec, &windows);
    let Ok(wl) = instantiate_wl(&mut app, code, &msg, fee) else { return };
    let info = WlInfo { spec: spec.clone(), addr: wl.clone(), windows, added: BTreeSet::new() };
    chain::set_time(&mut app, abs(at_));
    let now = chain::now(&app);
    let Some(params) = q(&app, factory.as_str(), json!({"params": {}})) else { return };
    let sg721 = params["params"]["allowed_sg721_code_ids"][0].clone();
    let cfee: u128 = params["params"]["creation_fee"]["amount"].as_str().and_then(|x| x.parse().ok()).unwrap_or(0);
    let start = now + START * NS;
    let collection = json!({"code_id": sg721, "name": "Collection2", "symbol": "COL2",
        "info": {"creator": CREATOR, "description": "d", "image": "https://example.com/image.png",
                 "external_link": "https://example.com/external.html", "explicit_content": false,
                 "start_trading_time": null, "royalty_info": {"payment_address": CREATOR, "share": "0.1"}}});
    let init = if c.fam.oe {
        json!({"nft_data": {"nft_data_type": "off_chain_metadata", "extension": null,
                            "token_uri": "ipfs://bafybeigi3bwpvyvsmnbj46ra4hyffcxdeaj6ntfk5jpic5mx27x6ih2qvq/images/1.png"},
               "payment_address": null, "start_time": ts(start), "end_time": ts(start + 5000 * NS), "num_tokens": 5,
               "mint_price": coinv(PUB, NATIVE), "per_address_limit": 3, "whitelist": wl.to_string()})
    } else {
        json!({"base_token_uri": "ipfs://bafybeigi3bwpvyvsmnbj46ra4hyffcxdeaj6ntfk5jpic5mx27x6ih2qvq/images",
               "payment_address": null, "start_time": ts(start), "num_tokens": 10,
               "mint_price": coinv(PUB, NATIVE), "per_address_limit": 3, "whitelist": wl.to_string()})
    };
    let create = json!({"create_minter": {"init_msg": init, "collection_params": collection}});
    let funds = if cfee > 0 { vec![coin(cfee, NATIVE)] } else { vec![] };
    let active_ledger = info.active_stage(now);
    let active_q = q(&app, wl.as_str(), json!({"is_active": {}})).and_then(|v| v["is_active"].as_bool());
    let r = chain::exec(&mut app, CREATOR, &factory, &create, &funds);
    let state = if active_ledger.is_some() { "active" } else if now < info.windows[0].0 { "not-started" } else { "ended" };
    *res.hist.entry(format!("{}+{}:create_with_whitelist_{}:{}", vname, spec.kind.name(), state, if r.is_ok() { "ok" } else { "err" })).or_insert(0) += 1;
    res.wl_ops += 1;
    if active_q != Some(active_ledger.is_some()) {
        res.violations.push(("C04:whitelist-activity-vs-window".into(), format!("{}: {} whitelist windows {:?} at {}: IsActive={:?}", vname, spec.kind.name(), info.windows, now, active_q), 0));
    }
    if r.is_ok() && (active_ledger.is_some() || active_q == Some(true)) {
        // the new minter is the newest contract that answers Config with this whitelist
        let mut minted = String::new();
        for n in (0..60).rev() {
            let a = format!("contract{}", n);
            if let Some(cfg) = q(&app, &a, json!({"config": {}})) {
                if cfg.get("sg721_address").is_some() && cfg["whitelist"].as_str() == Some(wl.as_str()) {
                    let st = active_ledger.unwrap_or(0);
                    let member = spec.stages[st].members.first().cloned().unwrap_or_else(|| M1.to_string());
                    let price = spec.stages[st].price;
                    let mm = if c.fam.merkle() {
                        let (sg, al) = spec.leaf_args(st);
                        let proof = if spec.kind.merkle() { Some(spec.proof(st, &member)) } else { None };
                        json!({"mint": {"stage": sg, "proof_hashes": proof, "allocation": if spec.kind.merkle() { al } else { None }}})
                    } else {
                        json!({"mint": {}})
                    };
                    let mr = chain::exec(&mut app, &member, &Addr::unchecked(a.clone()), &mm, &[coin(price, NATIVE)]);
                    minted = format!("; on the minter so created ({}) member {} minting with {} at {}, {} ns before the public start: {}", a, member, price, now, start - now, if mr.is_ok() { "succeeded" } else { "failed" });
                    break;
                }
            }
        }
        res.violations.push((
            "C04:created-with-active-whitelist".into(),
            format!("{}: create_minter with whitelist {} ({} whitelist, windows {:?}) succeeded at {} while that whitelist is active (IsActive={:?}){}", vname, wl, spec.kind.name(), info.windows, now, active_q, minted),
            0,
        ));
    }
}

pub fn run_case(c: &Case) -> CaseResult {
    let mut res = CaseResult {
        coq: None,
        steps: 0,
        ok_steps: 0,
        violations: vec![],
        hist: BTreeMap::new(),
        instants: BTreeSet::new(),
        observations: BTreeMap::new(),
        wl_ops: 0,
    };
    let vname = c.fam.name();
    if let Some(at_) = c.create_at {
        run_create_probe(c, at_, &mut res);
        return res;
    }
    let mut wb = match new_world(c) {
        Ok(w) => w,
        Err(e) => {
            *res.hist.entry(format!("{}:create:err", vname)).or_insert(0) += 1;
            res.violations.push(("C04:harness-world-not-created".into(), format!("{}: {}", vname, e), 0));
            return res;
        }
    };
    let w: &mut dyn World = wb.as_mut();
    let mut wls: Vec<WlInfo> = vec![];
    for (slot, spec) in c.wls.iter().enumerate() {
        let windows: Vec<(u64, u64)> = spec.stages.iter().map(|s| (w.abs(s.start), w.abs(s.end))).collect();
        let (msg, fee) = wl_msg(spec, &windows);
        match w.add_whitelist(slot, spec.kind, &msg, fee) {
            Ok(addr) => {
                let mut sp = spec.clone();
                let n = sp.stages.len();
                for g in sp.stages.iter_mut().skip(n.saturating_sub(sp.short_lists)) {
                    g.members.clear(); // no list was sent for this stage
                }
                wls.push(WlInfo { spec: sp, addr, windows, added: BTreeSet::new() })
            }
            Err(_) if spec.short_lists > 0 => {
                // fewer member lists than stages: the whitelist refuses to be created; nothing to run
                *res.hist.entry(format!("{}:create-whitelist-{}-short-lists:err", vname, spec.kind.name())).or_insert(0) += 1;
                return res;
            }
            Err(e) => {
                *res.hist.entry(format!("{}:create-whitelist-{}:err", vname, spec.kind.name())).or_insert(0) += 1;
                res.violations.push(("C04:harness-whitelist-not-created".into(), format!("{}: {:?}: {}", vname, spec.kind, e), 0));
                return res;
            }
        }
    }
    let (init, init_bal) = w.snapshot();
    let mut steps: Vec<String> = vec![];
    let mut probes: Vec<String> = vec![];
    // monitor state: successes per sender under the public rules / per (sender, whitelist, stage)
    let mut pub_ok: BTreeMap<String, u64> = BTreeMap::new();
    let mut wl_ok: BTreeMap<(String, String, usize), u64> = BTreeMap::new();
    let mut stage_ok: BTreeMap<(String, usize), u64> = BTreeMap::new();
    // the factory's minimum mint price (the worlds are created with 50; governance may move it)
    let mut min_price_now: u128 = 50;
    let wl_label = c.wls.first().map(|s| s.kind.name()).unwrap_or("none");

    for (oi, cop) in c.ops.iter().enumerate() {
        // ----- ops that are not minter steps -----
        match cop {
            COp::At(t) => {
                w.at(*t);
                continue;
            }
            COp::SudoMinPrice { price } => {
                w.sudo_min_price(*price);
                min_price_now = *price;
                continue;
            }
            COp::WlAdd { .. } | COp::WlRemove { .. } | COp::WlAddStage { .. } | COp::WlRemoveStage { .. } | COp::WlUpdateStage { .. } => {
                let (k, ok) = wl_admin(w, &mut wls, cop);
                *res.hist.entry(format!("{}+{}:{}:{}", vname, k, kind_of(cop), if ok { "ok" } else { "err" })).or_insert(0) += 1;
                res.wl_ops += 1;
                continue;
            }
            COp::WlAddMember { who } => {
                let cur = w.minter_config()["whitelist"].as_str().map(|s| s.to_string());
                if let Some(i) = cur.and_then(|a| wls.iter_mut().find(|i| i.addr.as_str() == a)) {
                    let msg = match i.spec.kind {
                        Kind::Plain => json!({"add_members": {"to_add": [who]}}),
                        Kind::Tiered => json!({"add_members": {"to_add": [who], "stage_id": 0}}),
                        Kind::Flex => json!({"add_members": {"to_add": [{"address": who, "mint_count": i.spec.limit}]}}),
                        Kind::TieredFlex => json!({"add_members": {"to_add": [{"address": who, "mint_count": i.spec.limit}], "stage_id": 0}}),
                        _ => continue,
                    };
                    let a = i.addr.clone();
                    if w.exec_other(CREATOR, &a, &msg) {
                        i.added.insert(who.clone());
                    }
                }
                continue;
            }
            _ => {}
        }
        // ----- Merkle arguments actually sent -----
        let margs: Option<MArgs> = match cop {
            COp::MintArgs { stage, proof, allocation, .. } => Some((*stage, proof.clone(), *allocation)),
            COp::MintP { slot, tree, proof_for, .. } => Some(match wls.get(*slot) {
                Some(i) if i.spec.kind.merkle() => {
                    let t = (*tree).min(i.spec.stages.len() - 1);
                    let (s, a) = i.spec.leaf_args(t);
                    (s, proof_for.as_ref().map(|p| i.spec.proof(t, p)), a)
                }
                _ => (None, proof_for.as_ref().map(|p| vec![hex::encode(h_plain(p.as_bytes()))]), None),
            }),
            _ => None,
        };
        let margs = if c.fam.merkle() { margs } else { None };
        // ----- read the schedule back from the contracts -----
        let pre = read_pre(w);
        let count_before: u64 = match cop {
            COp::MintP { who, .. } | COp::Mint { who, .. } | COp::MintArgs { who, .. } => w.mint_count(who),
            _ => 0,
        };
        let bal_before = w.balances_raw();
        let cur = pre.wl.as_ref().and_then(|a| wls.iter().position(|i| i.addr.as_str() == a));
        res.instants.insert(format!("{}@{}", kind_of(cop), pre.now as i128 - w.t0() as i128));
        // tie of the oracle: the attached whitelist's activity answers vs the windows it was created with
        if let Some(ci) = cur {
            let i = &wls[ci];
            let spec_active = i.active_stage(pre.now);
            let windows = coq_list(&i.windows.iter().map(|(s, e)| format!("({}, {})", s, e)).collect::<Vec<_>>());
            probes.push(format!(
                "(mkProbe {} {} {} {} {})",
                coq_bool(i.spec.kind.tiered()),
                windows,
                pre.now,
                coq_bool(pre.active_cfg.unwrap_or(false)),
                pre.stage_id.unwrap_or(0)
            ));
            if pre.active_cfg != Some(spec_active.is_some()) || pre.active_q != Some(spec_active.is_some()) {
                res.violations.push((
                    "C04:whitelist-activity-vs-window".into(),
                    format!("{}: {} whitelist with windows {:?} at {}: Config.is_active={:?} IsActive={:?}, the windows say {}",
                        vname, i.spec.kind.name(), i.windows, pre.now, pre.active_cfg, pre.active_q, spec_active.is_some()),
                    oi,
                ));
            }
            if i.spec.kind.tiered() && pre.stage_id != Some(spec_active.map(|x| x as u64 + 1).unwrap_or(0)) {
                res.violations.push((
                    "C04:whitelist-active-stage-vs-window".into(),
                    format!("{}: {} whitelist with windows {:?} at {}: ActiveStageId={:?}, the windows say {:?}",
                        vname, i.spec.kind.name(), i.windows, pre.now, pre.stage_id, spec_active.map(|x| x + 1)),
                    oi,
                ));
            }
        }
        // the price the minter announces to buyers right now: the whitelist's while it is active,
        // the public one (discount if set) otherwise
        if pre.wl.is_some() && pre.active_cfg == Some(true) {
            if let (Some(wp), Some(cp)) = (&pre.wl_price, &pre.current_price) {
                if wp != cp {
                    res.violations.push((
                        "C04:announced-price-not-whitelist-price-while-active".into(),
                        format!("{}: at {} the attached whitelist is active with price {:?}, MintPrice.current_price is {:?} (public/discount price {:?})", vname, pre.now, wp, cp, pre.public_price),
                        oi,
                    ));
                }
            }
        } else if pre.wl.is_none() || pre.active_cfg == Some(false) {
            if let Some(cp) = &pre.current_price {
                if *cp != pre.public_price {
                    res.violations.push((
                        "C04:announced-price-not-public-price".into(),
                        format!("{}: at {} no whitelist is active, MintPrice.current_price is {:?}, the public price (discount if set) is {:?}", vname, pre.now, cp, pre.public_price),
                        oi,
                    ));
                }
            }
        }
        // ----- run it -----
        let (out, who, funds): (StepOut, String, Vec<(String, u128)>) = match cop {
            COp::Mint { who, funds } | COp::MintArgs { who, funds, .. } | COp::MintP { who, funds, .. } => (w.mint(who, funds, &margs), who.clone(), funds.clone()),
            COp::MintTo { who, recipient, funds } => (w.mint_to(who, recipient, funds), who.clone(), funds.clone()),
            COp::MintFor { who, token_id, recipient } => match w.mint_for(who, *token_id, recipient) {
                Some(o) => (o, who.clone(), vec![]),
                None => continue,
            },
            COp::UpdateStart { who, t } => (w.update_start(who, *t), who.clone(), vec![]),
            COp::UpdateEnd { who, t } => match w.update_end(who, *t) {
                Some(o) => (o, who.clone(), vec![]),
                None => continue,
            },
            COp::Attach { who, slot } => match wls.get(*slot) {
                Some(i) => {
                    let (a, k) = (i.addr.clone(), i.spec.kind);
                    (w.attach(who, *slot, &a, k), who.clone(), vec![])
                }
                None => continue,
            },
            COp::UpdateMintPrice { who, price } => (w.update_mint_price(who, *price), who.clone(), vec![]),
            COp::UpdateDiscount { who, price } => match w.update_discount(who, *price) {
                Some(o) => (o, who.clone(), vec![]),
                None => continue,
            },
            COp::RemoveDiscount { who } => match w.remove_discount(who) {
                Some(o) => (o, who.clone(), vec![]),
                None => continue,
            },
            COp::UpdatePal { who, limit } => (w.update_pal(who, *limit), who.clone(), vec![]),
            COp::Migrate { who, stored } => (w.migrate(who, stored), who.clone(), vec![]),
            _ => continue,
        };
        if !out.is_minter_step {
            continue;
        }
        res.steps += 1;
        if out.ok {
            res.ok_steps += 1;
        }
        *res.hist.entry(format!("{}+{}:{}:{}", vname, wl_label, kind_of(cop), if out.ok { "ok" } else { "err" })).or_insert(0) += 1;
        if let Some(s) = out.coq {
            steps.push(s);
        }
        if let Some(e) = &out.err {
            if e.starts_with("STATE-CHANGED-ON-FAILURE") {
                res.violations.push(("C04:failed-call-changed-state".into(), format!("{}: {:?}: {}", vname, cop, e), oi));
            }
        }
        let post = w.minter_config();
        let post_start: u64 = post["start_time"].as_str().unwrap().parse().unwrap();
        let post_end: Option<u64> = post.get("end_time").and_then(|e| e.as_str()).map(|s| s.parse().unwrap());
        let post_wl = post["whitelist"].as_str().map(|s| s.to_string());
        let active = pre.wl.is_some() && pre.active_cfg == Some(true);
        let ended = pre.end.map(|en| pre.now >= en).unwrap_or(false);
        let bal_after = w.balances_raw();
        let delta = |who: &str, d: &str| -> i128 {
            let k = (who.to_string(), d.to_string());
            *bal_before.get(&k).unwrap_or(&0) as i128 - *bal_after.get(&k).unwrap_or(&0) as i128
        };
        let exact = |p: &(u128, String)| -> bool { funds.len() == 1 && funds[0].0 == p.1 && funds[0].1 == p.0 };
        let has_room = pre.mintable.map(|m| m > 0).unwrap_or(true);

        // ===== monitors, from the property text =====
        let is_buyer_mint = matches!(cop, COp::MintP { .. } | COp::Mint { .. } | COp::MintArgs { .. });
        let is_any_mint = is_buyer_mint || matches!(cop, COp::MintTo { .. } | COp::MintFor { .. });
        if is_any_mint && out.ok && ended {
            res.violations.push((
                "C04:mint-at-or-after-end".into(),
                format!("{}: {:?} succeeded at {} >= end time {:?}", vname, cop, pre.now, pre.end),
                oi,
            ));
        }
        if is_buyer_mint {
            // membership as the whitelist itself answers it for this sender (and this proof)
            // and as the case's member lists / trees define it (asked after the step: the
            // clock has not moved and a minter step cannot change a whitelist)
            let (member_q, member_spec, stage_idx): (Option<bool>, Option<bool>, Option<usize>) = match cur {
                Some(ci) => {
                    let i = &wls[ci];
                    let st = i.active_stage(pre.now);
                    if i.spec.kind.merkle() {
                        let (mq, ms) = match &margs {
                            Some((stage, Some(proof), alloc)) => {
                                let leaf = match (stage, alloc) {
                                    (None, Some(a)) => format!("{}{}", who, a),
                                    (Some(s), None) => format!("{}{}", s, who),
                                    (Some(s), Some(a)) => format!("{}{}{}", s, who, a),
                                    (None, None) => who.clone(),
                                };
                                let ans = q(w.app(), i.addr.as_str(), json!({"has_member": {"member": leaf, "proof_hashes": proof}}))
                                    .and_then(|v| v["has_member"].as_bool());
                                let spec = st.map(|s| i.listed(s, &who) && i.spec.leaf(s, &who) == leaf && i.spec.proof(s, &who) == *proof);
                                (ans, spec)
                            }
                            _ => (Some(false), Some(false)), // no proof: no entitlement on a Merkle whitelist
                        };
                        (mq, ms, st)
                    } else {
                        let ans = q(w.app(), i.addr.as_str(), json!({"has_member": {"member": who}})).and_then(|v| v["has_member"].as_bool());
                        (ans, st.map(|s| i.listed(s, &who)), st)
                    }
                }
                None => (None, None, None),
            };
            if active && cur.is_some() && member_spec.is_some() && member_q.is_some() && member_q != member_spec {
                res.violations.push((
                    "C04:whitelist-membership-vs-lists".into(),
                    format!("{}: whitelist answers has_member={:?} for {} at {}, the member lists / trees say {:?}", vname, member_q, who, pre.now, member_spec),
                    oi,
                ));
            }
            if out.ok {
                if !active && pre.now < pre.start {
                    res.violations.push((
                        "C04:public-mint-before-start".into(),
                        format!("{}: {:?} succeeded at {} with no active whitelist (whitelist {:?}, is_active {:?}), start time {}", vname, cop, pre.now, pre.wl, pre.active_cfg, pre.start),
                        oi,
                    ));
                }
                if active && member_q != Some(true) {
                    res.violations.push((
                        "C04:nonmember-mint-while-whitelist-active".into(),
                        format!("{}: {:?} succeeded at {} while the whitelist is active and answers has_member={:?}", vname, cop, pre.now, member_q),
                        oi,
                    ));
                }
                if active && member_spec == Some(false) {
                    res.violations.push((
                        "C04:non-member-minted-in-whitelist-phase".into(),
                        format!("{}: {:?} succeeded at {} while the whitelist is active; by the ledger of admin operations the sender is not an intended member of the active stage {:?} (intended members: {:?}) / holds no proof bound to it",
                            vname, cop, pre.now, stage_idx.map(|x| x + 1), cur.and_then(|ci| stage_idx.and_then(|s| wls[ci].spec.stages.get(s).map(|g| g.members.clone())))),
                        oi,
                    ));
                }
                if active {
                    if let Some((p, d)) = &pre.wl_price {
                        let other = if d == NATIVE { IBC } else { NATIVE };
                        // the seller buying from itself gets the proceeds back: look at the funds it attached instead
                        let charged_ok = if who == CREATOR { exact(&(*p, d.clone())) } else { delta(&who, d) == *p as i128 && delta(&who, other) == 0 };
                        if !charged_ok {
                            res.violations.push((
                                "C04:whitelist-mint-not-charged-whitelist-price".into(),
                                format!("{}: {:?} at {} under an active whitelist (price {} {}) cost the buyer {} {} / {} {}", vname, cop, pre.now, p, d, delta(&who, d), d, delta(&who, other), other),
                                oi,
                            ));
                        }
                        if let (Some(ci), Some(s)) = (cur, stage_idx) {
                            // charged against the ledger's price of the active stage, whatever the whitelist reports
                            let lp = wls[ci].spec.stages[s].price;
                            let ledger_ok = if who == CREATOR { exact(&(lp, d.clone())) } else { delta(&who, d) == lp as i128 };
                            if !ledger_ok {
                                res.violations.push((
                                    "C04:whitelist-mint-not-charged-active-stage-price".into(),
                                    format!("{}: {:?} at {} in stage {} whose intended price is {} cost the buyer {} {}", vname, cop, pre.now, s + 1, lp, delta(&who, d), d),
                                    oi,
                                ));
                            }
                            if wls[ci].spec.stages[s].price != *p {
                                res.violations.push((
                                    "C04:whitelist-price-vs-stage".into(),
                                    format!("{}: whitelist reports price {} at {}, the active stage was created with {}", vname, p, pre.now, wls[ci].spec.stages[s].price),
                                    oi,
                                ));
                            }
                        }
                    }
                    if let (Some(ci), Some(s)) = (cur, stage_idx) {
                        *wl_ok.entry((who.clone(), wls[ci].addr.to_string(), s)).or_insert(0) += 1;
                        *stage_ok.entry((wls[ci].addr.to_string(), s)).or_insert(0) += 1;
                    }
                } else {
                    let (p, d) = &pre.public_price;
                    let charged_ok = if who == CREATOR { exact(&(*p, d.clone())) } else { delta(&who, d) == *p as i128 };
                    if !charged_ok {
                        res.violations.push((
                            "C04:public-mint-not-charged-public-price".into(),
                            format!("{}: {:?} at {} under the public rules (price {} {}) cost the buyer {}", vname, cop, pre.now, p, d, delta(&who, d)),
                            oi,
                        ));
                    }
                    *pub_ok.entry(who.clone()).or_insert(0) += 1;
                }
            } else {
                // the sale window is open: a buyer who meets every public condition is served
                if !active && pre.now >= pre.start && !ended && exact(&pre.public_price) && has_room
                    && *pub_ok.get(&who).unwrap_or(&0) < pre.pal && count_before < pre.pal && (pre.wl.is_none() || pre.active_cfg == Some(false))
                {
                    res.violations.push((
                        "C04:public-mint-rejected-inside-window".into(),
                        format!("{}: {:?} failed at {} >= start {} (end {:?}) with no active whitelist, exact price, {:?} mintable, MintCount {} of {}: {:?}",
                            vname, cop, pre.now, pre.start, pre.end, pre.mintable, count_before, pre.pal, out.err),
                        oi,
                    ));
                }
                // an entitled member offering the whitelist price on a first mint of the stage is served
                if active && !ended && member_q == Some(true) && member_spec == Some(true) && has_room {
                    if let (Some(ci), Some(s), Some(p)) = (cur, stage_idx, &pre.wl_price) {
                        let i = &wls[ci];
                        let first = *wl_ok.get(&(who.clone(), i.addr.to_string(), s)).unwrap_or(&0) == 0;
                        let total_wl: u64 = wl_ok.iter().filter(|((a, _, _), _)| *a == who).map(|(_, v)| *v).sum();
                        let room = match i.spec.stages[s].stage_limit {
                            None => true,
                            Some(l) => *stage_ok.get(&(i.addr.to_string(), s)).unwrap_or(&0) < l as u64,
                        };
                        if exact(p) && first && total_wl == 0 && room {
                            // not a clause of the property (it only says "succeeds only if"): recorded as an observation
                            let why = out.err.clone().unwrap_or_default();
                            let why = why.rsplit(": ").next().unwrap_or("").chars().take(140).collect::<String>();
                            *res.observations.entry(format!("entitled member offering the exact whitelist price rejected while the whitelist is active: {} x {} whitelist ({})", vname, i.spec.kind.name(), why)).or_insert(0) += 1;
                        }
                    }
                }
            }
        }
        if let COp::UpdateStart { who, t } = cop {
            let new = w.abs(*t);
            if out.ok {
                if !(pre.now < pre.start) {
                    res.violations.push(("C04:start-time-changed-after-start".into(), format!("{}: UpdateStartTime({}) succeeded at {} >= start {}", vname, new, pre.now, pre.start), oi));
                }
                if new < pre.now {
                    res.violations.push(("C04:start-time-moved-into-the-past".into(), format!("{}: UpdateStartTime({}) succeeded at {}", vname, new, pre.now), oi));
                }
                if pre.end.map(|en| new > en).unwrap_or(false) {
                    res.violations.push(("C04:start-time-moved-past-end".into(), format!("{}: UpdateStartTime({}) succeeded with end time {:?}", vname, new, pre.end), oi));
                }
                if who != CREATOR {
                    res.violations.push(("C04:schedule-changed-by-non-admin".into(), format!("{}: UpdateStartTime by {} succeeded", vname, who), oi));
                }
                if post_start != new || post_wl != pre.wl || post_end != pre.end {
                    res.violations.push(("C04:update-start-time-wrong-result".into(), format!("{}: UpdateStartTime({}) left start {} end {:?} whitelist {:?} (was {:?})", vname, new, post_start, post_end, post_wl, pre.wl), oi));
                }
            } else if who == CREATOR && pre.now < pre.start && new >= pre.now && pre.end.map(|en| new <= en).unwrap_or(true) {
                res.violations.push(("C04:safe-start-time-update-rejected".into(), format!("{}: UpdateStartTime({}) by the admin failed at {} < start {} (end {:?}): {:?}", vname, new, pre.now, pre.start, pre.end, out.err), oi));
            }
        }
        if let COp::UpdateEnd { who, t } = cop {
            let new = w.abs(*t);
            if out.ok {
                if ended || pre.end.is_none() {
                    res.violations.push(("C04:end-time-changed-after-end".into(), format!("{}: UpdateEndTime({}) succeeded at {} with end time {:?}", vname, new, pre.now, pre.end), oi));
                }
                if new < pre.now {
                    res.violations.push(("C04:end-time-moved-into-the-past".into(), format!("{}: UpdateEndTime({}) succeeded at {}", vname, new, pre.now), oi));
                }
                if new < pre.start {
                    res.violations.push(("C04:end-time-moved-before-start".into(), format!("{}: UpdateEndTime({}) succeeded with start time {}", vname, new, pre.start), oi));
                }
                if who != CREATOR {
                    res.violations.push(("C04:schedule-changed-by-non-admin".into(), format!("{}: UpdateEndTime by {} succeeded", vname, who), oi));
                }
                if post_end != Some(new) || post_start != pre.start || post_wl != pre.wl {
                    res.violations.push(("C04:update-end-time-wrong-result".into(), format!("{}: UpdateEndTime({}) left end {:?} start {} whitelist {:?}", vname, new, post_end, post_start, post_wl), oi));
                }
            } else if who == CREATOR && pre.end.is_some() && !ended && new >= pre.now && new >= pre.start {
                res.violations.push(("C04:safe-end-time-update-rejected".into(), format!("{}: UpdateEndTime({}) by the admin failed at {} < end {:?}, start {}: {:?}", vname, new, pre.now, pre.end, pre.start, out.err), oi));
            }
        }
        if let COp::Attach { who, slot } = cop {
            let newi = &wls[*slot];
            let new_active_spec = newi.active_stage(pre.now).is_some();
            let new_active_q = q(w.app(), newi.addr.as_str(), json!({"is_active": {}})).and_then(|v| v["is_active"].as_bool());
            if new_active_q != Some(new_active_spec) {
                res.violations.push(("C04:whitelist-activity-vs-window".into(), format!("{}: new {} whitelist windows {:?} at {}: IsActive={:?}", vname, newi.spec.kind.name(), newi.windows, pre.now, new_active_q), oi));
            }
            if out.ok {
                if !(pre.now < pre.start) {
                    res.violations.push(("C04:whitelist-set-after-start".into(), format!("{}: SetWhitelist succeeded at {} >= start {}", vname, pre.now, pre.start), oi));
                }
                if active {
                    res.violations.push(("C04:whitelist-replaced-while-active".into(), format!("{}: SetWhitelist succeeded at {} while the current whitelist {:?} is active", vname, pre.now, pre.wl), oi));
                }
                if new_active_spec || new_active_q == Some(true) {
                    res.violations.push(("C04:active-whitelist-attached".into(), format!("{}: SetWhitelist succeeded at {} with a new whitelist that is active (windows {:?})", vname, pre.now, newi.windows), oi));
                }
                if who != CREATOR {
                    res.violations.push(("C04:schedule-changed-by-non-admin".into(), format!("{}: SetWhitelist by {} succeeded", vname, who), oi));
                }
                if post_wl.as_deref() != Some(newi.addr.as_str()) || post_start != pre.start || post_end != pre.end {
                    res.violations.push(("C04:set-whitelist-wrong-result".into(), format!("{}: SetWhitelist({}) left whitelist {:?} start {} end {:?}", vname, newi.addr, post_wl, post_start, post_end), oi));
                }
            } else if who == CREATOR && pre.now < pre.start && !active && !new_active_spec && (pre.wl.is_none() || pre.active_cfg == Some(false))
                && !newi.spec.stages.is_empty() && newi.spec.stages.iter().all(|g| g.price >= min_price_now)
            {
                res.violations.push(("C04:safe-whitelist-change-rejected".into(), format!("{}: SetWhitelist({} {}) by the admin failed at {} < start {} with neither whitelist active: {:?}", vname, newi.spec.kind.name(), newi.addr, pre.now, pre.start, out.err), oi));
            }
        }
        // whatever the call was: once the clock has reached the start time the start and the
        // whitelist stay; once it has reached the end time the end stays
        if pre.now >= pre.start && (post_start != pre.start || post_wl != pre.wl) {
            res.violations.push(("C04:schedule-changed-after-start".into(), format!("{}: {:?} at {} >= start {} changed start/whitelist to {} / {:?}", vname, cop, pre.now, pre.start, post_start, post_wl), oi));
        }
        if ended && post_end != pre.end {
            res.violations.push(("C04:schedule-changed-after-end".into(), format!("{}: {:?} at {} >= end {:?} changed the end time to {:?}", vname, cop, pre.now, pre.end, post_end), oi));
        }
        if !matches!(cop, COp::Attach { .. } | COp::UpdateStart { .. } | COp::UpdateEnd { .. }) && (post_start != pre.start || post_wl != pre.wl || post_end != pre.end) {
            res.violations.push(("C04:schedule-changed-by-unrelated-call".into(), format!("{}: {:?} changed start/end/whitelist", vname, cop), oi));
        }
        if res.violations.len() > 5 {
            break;
        }
    }
    for what in w.metadata_violations() {
        res.violations.push(("C04:oe-token-metadata".into(), what, c.ops.len()));
    }
    res.coq = Some(w.finish(&init, &init_bal, &steps, &probes));
    res
}

// =====================================================================================
// generators
// =====================================================================================
fn native(a: u128) -> Vec<(String, u128)> {
    vec![(NATIVE.to_string(), a)]
}
fn at(t: T) -> COp {
    COp::At(t)
}
fn mint(who: &str, a: u128) -> COp {
    COp::Mint { who: who.into(), funds: native(a) }
}
fn mintp(who: &str, a: u128, tree: usize, proof_for: Option<&str>) -> COp {
    COp::MintP { who: who.into(), funds: native(a), slot: 0, tree, proof_for: proof_for.map(|s| s.to_string()) }
}
fn attach(who: &str, slot: usize) -> COp {
    COp::Attach { who: who.into(), slot }
}
fn ust(who: &str, t: T) -> COp {
    COp::UpdateStart { who: who.into(), t }
}
fn uet(who: &str, t: T) -> COp {
    COp::UpdateEnd { who: who.into(), t }
}
fn drop_to(fam: Fam, who: &str) -> COp {
    COp::MintTo { who: who.into(), recipient: NM.into(), funds: fam.airdrop_funds() }
}

const PUB: u128 = 100;
const START: u64 = 3000;
const END: u64 = 5000;

/// schedule shapes: (whitelist, boundary instants)
fn shape(fam: Fam, kind: Kind, sh: usize) -> (WlSpec, Vec<T>) {
    let st = |s: T, e: T, p: u128, m: &[&str], l: Option<u32>| StageSpec {
        start: s,
        end: e,
        price: p,
        members: m.iter().map(|x| x.to_string()).collect(),
        stage_limit: l,
    };
    let nshapes = if fam.oe { 4 } else { 3 };
    let stages = if kind.tiered() {
        match sh % nshapes {
            // two touching stages, both over before the public start
            0 => vec![st(T(1000, 0), T(2000, 0), 60, &[M1], None), st(T(2000, 0), T(2500, 0), 70, &[M2], None)],
            // three separated stages, the last one overlaps the public start; off-second edges
            1 => vec![
                st(T(1000, 0), T(1500, 0), 60, &[M1], None),
                st(T(1700, 3), T(2000, 5), 70, &[M2], Some(5)),
                st(T(2500, 0), T(3500, 0), 80, &[M1, M2], None),
            ],
            // two stages, the first ends exactly at the public start, the second starts after it
            2 => vec![st(T(1000, 0), T(3000, 0), 60, &[M1], None), st(T(3200, 0), T(3300, 0), 70, &[M2], None)],
            // open edition: the second stage straddles the end time
            _ => vec![st(T(1000, 0), T(2000, 0), 60, &[M1], None), st(T(4500, 0), T(5500, 0), 70, &[M1, M2], None)],
        }
    } else {
        match sh % nshapes {
            0 => vec![st(T(1000, 0), T(2000, 0), 60, &[M1], None)],
            1 => vec![st(T(1000, 7), T(4000, 0), 60, &[M1], None)], // still active after the public start
            2 => vec![st(T(1000, 0), T(3000, 0), 60, &[M1], None)], // ends exactly at the public start
            _ => vec![st(T(1000, 0), T(6000, 0), 60, &[M1], None)], // open edition: still active at the end time
        }
    };
    let mut bs: Vec<T> = vec![T(START, 0)];
    if fam.oe {
        bs.push(T(END, 0));
    }
    for s in &stages {
        bs.push(s.start);
        bs.push(s.end);
    }
    bs.sort();
    bs.dedup();
    (WlSpec { kind, stages, limit: 5, leaf_fmt: (sh % 4) as u8, extra_lists: vec![], short_lists: 0 }, bs)
}

/// who tries what at one instant
fn block(fam: Fam, spec: Option<&WlSpec>, now: T, airdrop: bool) -> Vec<COp> {
    let mut o = vec![];
    let (wlp, tree, ntrees) = match spec {
        Some(s) => {
            let n = now.ns();
            let tiered = s.kind.tiered();
            let idx = s.stages.iter().position(|x| x.start.ns() <= n && if tiered { n <= x.end.ns() } else { n < x.end.ns() });
            (s.stages[idx.unwrap_or(0)].price, idx.unwrap_or(0), s.stages.len())
        }
        None => (60, 0, 1),
    };
    if fam.merkle() && spec.map(|s| s.kind.merkle()).unwrap_or(false) {
        o.push(mintp(NM, wlp, tree, Some(M1))); // someone else's proof
        o.push(mintp(M1, wlp, tree, None)); // no proof
        o.push(mintp(M2, wlp, (tree + 1) % ntrees, Some(M2))); // a proof from another stage's tree
        o.push(mint(NM, PUB));
        o.push(mintp(M1, PUB, tree, Some(M1))); // own proof, public price
        o.push(mintp(M1, wlp, tree, Some(M1))); // own proof, whitelist price
        o.push(mintp(M2, wlp, tree, Some(M2)));
    } else {
        o.push(mint(NM, wlp)); // not a member, whitelist price
        o.push(mint(NM, PUB)); // not a member, public price
        o.push(mint(M2, wlp)); // member of another stage (tiered) / not a member
        o.push(mint(M1, PUB)); // member, public price
        if fam.merkle() && spec.is_some() {
            o.push(mintp(NM, wlp, 0, Some(NM))); // a proof means nothing to a list whitelist
            o.push(mintp(M1, wlp, 0, Some(M1)));
        } else {
            o.push(mint(M1, wlp)); // member, whitelist price
        }
    }
    if airdrop {
        o.push(drop_to(fam, STRANGER));
        o.push(drop_to(fam, CREATOR));
    }
    o
}

fn base_case(label: String, fam: Fam, wls: Vec<WlSpec>, ops: Vec<COp>) -> Case {
    Case { label, fam, num_tokens: if fam.oe { 40 } else { 24 }, pal: 3, price: PUB, start_in: START, end_in: if fam.oe { Some(END) } else { None }, wls, ops, onchain: false, create_at: None }
}

/// one history per boundary instant of the shape: the same block at t-1ns, t, t+1ns
fn boundary_cases(fam: Fam, kind: Option<Kind>, sh: usize) -> Vec<Case> {
    let (spec, bs) = match kind {
        Some(k) => {
            let (s, b) = shape(fam, k, sh);
            (Some(s), b)
        }
        None => (None, if fam.oe { vec![T(START, 0), T(END, 0)] } else { vec![T(START, 0)] }),
    };
    let mut v = vec![];
    for b in bs {
        let mut ops = vec![];
        if spec.is_some() {
            ops.push(attach(CREATOR, 0));
        }
        for d in [-1i64, 0, 1] {
            let t = b.plus(d);
            ops.push(at(t));
            ops.extend(block(fam, spec.as_ref(), t, b == T(START, 0) || b == T(END, 0)));
        }
        v.push(base_case(
            format!("boundary:{}:{}:shape{}:{:?}", fam.name(), kind.map(|k| k.name()).unwrap_or("none"), sh, b),
            fam,
            spec.iter().cloned().collect(),
            ops,
        ));
    }
    v
}

/// migrations of the minter inside the schedule: after SetWhitelist, after UpdateStartTime, around the
/// (moved) start and, on the open editions, around the end time
fn migrate_cases(fam: Fam) -> Vec<Case> {
    let mig = |who: &str, stored: Option<(&str, &str)>| COp::Migrate { who: who.into(), stored: stored.map(|(a, b)| (a.to_string(), b.to_string())) };
    let s = T(START, 0);
    let later = T(START + 100, 0);
    let mut v = vec![];
    for kind in [None, Some(fam.compatible()[0])] {
        let wls: Vec<WlSpec> = kind.map(|k| shape(fam, k, 0).0).into_iter().collect();
        let mut ops: Vec<COp> = vec![];
        if kind.is_some() {
            ops.push(attach(CREATOR, 0));
        }
        ops.extend(vec![
            mig(CREATOR, Some(("@own", "3.8.9"))),
            at(T(1500, 0)),
            mint(M1, 60),
            mint(NM, 60),
            mig(CREATOR, Some(("@own", "3.9.0"))),
            mint(M1, 60),
            at(T(START - 10, 0)),
            ust(CREATOR, later),
            mig(CREATOR, Some(("@own", "3.8.0"))),
            mig(STRANGER, Some(("@own", "3.8.0"))),
            at(s),
            mint(NM, PUB),                                   // the old start no longer opens the sale
            at(later.plus(-1)),
            mint(NM, PUB),
            mig(CREATOR, None),
            at(later),
            mint(NM, PUB),
            mig(CREATOR, Some(("@own", "99.0.0"))),
            mig(CREATOR, Some(("crates.io:something-else", "3.0.0"))),
            mig(CREATOR, Some(("@own", "3.15.0"))),
            ust(CREATOR, T(START + 500, 0)),                 // too late, also after a migration
            mint(M1, PUB),
        ]);
        if fam.oe {
            ops.extend(vec![
                at(T(END, -1)),
                mig(CREATOR, Some(("@own", "3.0.0"))),
                mint(NM, PUB),
                at(T(END, 0)),
                mint(NM, PUB),                               // the end time still closes the sale
                mig(CREATOR, Some(("@own", "3.1.0"))),
                at(T(END, 1)),
                mint(M1, PUB),
                drop_to(fam, CREATOR),
            ]);
        }
        v.push(base_case(format!("migrate:{}:{}", fam.name(), kind.map(|k| k.name()).unwrap_or("none")), fam, wls, ops));
    }
    v
}

/// UpdateStartTime at its own boundaries
fn update_start_cases(fam: Fam, kind: Option<Kind>) -> Vec<Case> {
    let s = T(START, 0);
    let wls: Vec<WlSpec> = kind.map(|k| shape(fam, k, 0).0).into_iter().collect();
    let pre: Vec<COp> = if kind.is_some() { vec![attach(CREATOR, 0)] } else { vec![] };
    let mk = |name: &str, ops: Vec<COp>| {
        let mut o = pre.clone();
        o.extend(ops);
        base_case(format!("update-start:{}:{}:{}", fam.name(), kind.map(|k| k.name()).unwrap_or("none"), name), fam, wls.clone(), o)
    };
    let later = T(START + 100, 0);
    let later2 = T(START + 200, 11);
    let mut v = vec![
        // move later, twice; the old start no longer opens the sale, the new one does, to the nanosecond
        mk("later", vec![
            at(T(START - 10, 0)), ust(STRANGER, later), ust(CREATOR, later),
            at(s.plus(-1)), mint(NM, PUB), at(s), mint(NM, PUB), at(s.plus(1)), mint(NM, PUB),
            ust(CREATOR, later2),
            at(later.plus(-1)), mint(NM, PUB), at(later), mint(NM, PUB),
            at(later2.plus(-1)), mint(NM, PUB), ust(CREATOR, T(START + 300, 0)),
            at(T(START + 300, -1)), mint(NM, PUB), at(T(START + 300, 0)), mint(NM, PUB), ust(CREATOR, T(START + 400, 0)),
            at(T(START + 300, 1)), mint(NM, PUB), ust(CREATOR, T(START + 400, 0)),
        ]),
        // move earlier: to now+1ns (still closed), then to exactly now (open at once, and frozen)
        mk("earlier", vec![
            at(T(2600, 0)), ust(CREATOR, T(2600, 1)), mint(NM, PUB), mint(M1, PUB),
            ust(CREATOR, T(2600, 0)), mint(NM, PUB), ust(CREATOR, T(2700, 0)), ust(CREATOR, T(2600, 0)),
            at(T(2600, 1)), mint(M1, PUB), ust(CREATOR, T(2700, 0)),
        ]),
        // into the past: now-1ns, creation time
        mk("past", vec![
            at(T(2600, 0)), ust(CREATOR, T(2600, -1)), ust(CREATOR, T(0, 0)), ust(CREATOR, T(2599, 0)), mint(NM, PUB),
            at(T(2600, 5)), ust(CREATOR, T(2600, 4)), ust(CREATOR, T(2600, 5)), mint(NM, PUB),
        ]),
        // one nanosecond before the start it still works
        mk("at-start-1ns", vec![at(s.plus(-1)), ust(STRANGER, T(START + 50, 0)), ust(CREATOR, T(START + 50, 0)), at(s), mint(NM, PUB),
            at(T(START + 50, -1)), mint(NM, PUB), at(T(START + 50, 0)), mint(NM, PUB)]),
        // at the start and one nanosecond after it, it is too late
        mk("at-start", vec![at(s), ust(CREATOR, T(START + 50, 0)), ust(CREATOR, s), mint(NM, PUB), ust(CREATOR, T(START + 50, 0))]),
        mk("at-start+1ns", vec![at(s.plus(1)), ust(CREATOR, T(START + 50, 0)), ust(CREATOR, s.plus(1)), mint(NM, PUB)]),
    ];
    if fam.oe {
        let e = T(END, 0);
        // the start may move up to the end time, not beyond it
        v.push(mk("to-end", vec![at(T(2000, 0)), ust(CREATOR, e.plus(1)), ust(CREATOR, e), at(e.plus(-1)), mint(NM, PUB), drop_to(fam, CREATOR), at(e), mint(NM, PUB), drop_to(fam, CREATOR)]));
        v.push(mk("to-end-1ns", vec![at(T(2000, 0)), ust(CREATOR, e.plus(-1)), at(e.plus(-2)), mint(NM, PUB), at(e.plus(-1)), mint(NM, PUB), mint(M1, PUB), at(e), mint(M2, PUB)]));
    }
    v
}

/// UpdateEndTime at its own boundaries (open edition)
fn update_end_cases(fam: Fam, kind: Option<Kind>) -> Vec<Case> {
    let (s, e) = (T(START, 0), T(END, 0));
    let wls: Vec<WlSpec> = kind.map(|k| shape(fam, k, 0).0).into_iter().collect();
    let pre: Vec<COp> = if kind.is_some() { vec![attach(CREATOR, 0)] } else { vec![] };
    let mk = |name: &str, ops: Vec<COp>| {
        let mut o = pre.clone();
        o.extend(ops);
        base_case(format!("update-end:{}:{}:{}", fam.name(), kind.map(|k| k.name()).unwrap_or("none"), name), fam, wls.clone(), o)
    };
    let later = T(END + 100, 0);
    let both = |who: &str| vec![mint(who, PUB), drop_to(fam, CREATOR)];
    let seq = |parts: Vec<Vec<COp>>| parts.into_iter().flatten().collect::<Vec<_>>();
    let mut v = vec![
        // move later: the old end no longer closes the sale, the new one does, to the nanosecond
        mk("later", seq(vec![
            vec![at(T(END - 10, 0)), uet(STRANGER, later), uet(CREATOR, later), at(e.plus(-1))], both(NM),
            vec![at(e)], both(NM), vec![at(e.plus(1))], both(M1),
            vec![at(later.plus(-1))], both(M1), vec![uet(CREATOR, T(END + 200, 3)), at(later)], both(M2),
            vec![at(T(END + 200, 2))], both(M2), vec![at(T(END + 200, 3))], both(M2), vec![uet(CREATOR, T(END + 300, 0))],
            vec![at(T(END + 200, 4))], both(M2), vec![uet(CREATOR, T(END + 300, 0))],
        ])),
        // move earlier: to now+1ns (still open for one nanosecond), and to exactly now (closed at once, for good)
        mk("earlier", seq(vec![
            vec![at(T(4000, 0)), uet(CREATOR, T(4000, 1))], both(NM), vec![at(T(4000, 1))], both(NM), vec![uet(CREATOR, T(4100, 0))],
        ])),
        mk("to-now", seq(vec![
            vec![at(T(4000, 0)), uet(CREATOR, T(4000, 0))], both(NM), vec![uet(CREATOR, T(4100, 0)), at(T(4000, 1))], both(M1), vec![uet(CREATOR, T(4100, 0))],
        ])),
        // into the past
        mk("past", seq(vec![vec![at(T(4000, 0)), uet(CREATOR, T(4000, -1)), uet(CREATOR, T(0, 0)), uet(CREATOR, T(3999, 0))], both(NM), vec![at(e.plus(-1))], both(NM), vec![at(e)], both(M1)])),
        // before the start: the end may come down to the start, not below it
        mk("before-start", seq(vec![vec![at(T(2000, 0)), uet(CREATOR, s.plus(-1)), uet(CREATOR, s), at(s.plus(-1))], both(NM), vec![at(s)], both(NM)])),
        mk("to-start+1ns", seq(vec![vec![at(T(2000, 0)), uet(CREATOR, s.plus(1)), at(s.plus(-1))], both(NM), vec![at(s)], both(NM), both(M1), vec![at(s.plus(1))], both(M2)])),
        // at end-1ns it still works; at the end and after it, it is too late
        mk("at-end-1ns", seq(vec![vec![at(e.plus(-1)), uet(STRANGER, T(END + 50, 0)), uet(CREATOR, T(END + 50, 0)), at(e)], both(NM), vec![at(T(END + 50, -1))], both(NM), vec![at(T(END + 50, 0))], both(M1)])),
        mk("at-end", seq(vec![vec![at(e), uet(CREATOR, T(END + 50, 0)), uet(CREATOR, e)], both(NM), vec![uet(CREATOR, T(END + 50, 0))]])),
        mk("at-end+1ns", seq(vec![vec![at(e.plus(1)), uet(CREATOR, T(END + 50, 0)), uet(CREATOR, e.plus(1))], both(NM)])),
    ];
    // no end time configured: none can be introduced
    let mut c = mk("no-end-time", seq(vec![vec![at(T(2000, 0)), uet(CREATOR, T(END, 0)), at(T(END, 1))], both(NM), vec![uet(CREATOR, T(END + 50, 0))]]));
    c.end_in = None;
    v.push(c);
    v
}

/// SetWhitelist at the start boundary and at the activity boundaries of the old / the new whitelist
fn set_whitelist_cases(fam: Fam, kind: Kind) -> Vec<Case> {
    let stage = |s: T, e: T, p: u128, m: &str| StageSpec { start: s, end: e, price: p, members: vec![m.to_string()], stage_limit: None };
    let mk_spec = |stages: Vec<StageSpec>| WlSpec { kind, stages, limit: 5, leaf_fmt: 0, extra_lists: vec![], short_lists: 0 };
    // old: [1000, 2000) for M1; new: [1500, 2500) for M2 (two stages when tiered); late: (3500, 4000) after the public start
    let old = mk_spec(vec![stage(T(1000, 0), T(2000, 0), 60, M1)]);
    let new = if kind.tiered() {
        mk_spec(vec![stage(T(1500, 0), T(1800, 0), 70, M2), stage(T(1800, 0), T(2500, 0), 75, M2)])
    } else {
        mk_spec(vec![stage(T(1500, 0), T(2500, 0), 70, M2)])
    };
    let late = mk_spec(vec![stage(T(3500, 0), T(4000, 0), 80, M2)]);
    let wls = vec![old, new, late];
    let probe = || -> Vec<COp> {
        // after the attempt: who can mint now?
        let mut o = vec![];
        let merkle = fam.merkle() && kind.merkle();
        for (who, p) in [(M1, 60u128), (M2, 70), (M2, 75), (M2, 80), (NM, PUB)] {
            if p == 75 && !kind.tiered() {
                continue; // the price of the new whitelist's second stage
            }
            if merkle && who != NM {
                // the proof that belongs to the whitelist the price belongs to
                let slot = match p {
                    60 => 0usize,
                    80 => 2,
                    _ => 1,
                };
                o.push(COp::MintP { who: who.into(), funds: native(p), slot, tree: if p == 75 { 1 } else { 0 }, proof_for: Some(who.into()) });
            } else {
                o.push(mint(who, p));
            }
        }
        o
    };
    let mut v = vec![];
    let mut add = |name: String, ops: Vec<COp>| {
        v.push(base_case(format!("set-whitelist:{}:{}:{}", fam.name(), kind.name(), name), fam, wls.clone(), ops));
    };
    let s = T(START, 0);
    // the start boundary, no whitelist attached yet; the late whitelist opens after the public start
    for d in [-1i64, 0, 1] {
        let t = s.plus(d);
        add(format!("start{:+}ns", d), {
            let mut o = vec![at(t), attach(STRANGER, 2), attach(CREATOR, 2)];
            o.extend(probe());
            if d < 0 {
                // attached: it opens after the public start and closes the public sale to non-members
                for t2 in [T(3500, -1), T(3500, 0), T(4000, -1), T(4000, 0)] {
                    o.push(at(t2));
                    o.extend(probe());
                }
            }
            o
        });
    }
    // replacing the old whitelist around its own activity window
    let end_old = T(2000, 0);
    for (nm, t) in [("old-start-1ns", T(1000, -1)), ("old-start", T(1000, 0)), ("old-start+1ns", T(1000, 1)), ("old-end-1ns", end_old.plus(-1)), ("old-end", end_old), ("old-end+1ns", end_old.plus(1))] {
        add(nm.to_string(), {
            let mut o = vec![attach(CREATOR, 0), at(t)];
            // the late whitelist is not active at any of these instants
            o.push(attach(CREATOR, 2));
            o.extend(probe());
            o.push(at(T(3500, 0)));
            o.extend(probe());
            o
        });
    }
    // attaching a new whitelist around its own activity window
    let (ns, ne) = (T(1500, 0), T(2500, 0));
    for (nm, t) in [("new-start-1ns", ns.plus(-1)), ("new-start", ns), ("new-start+1ns", ns.plus(1)), ("new-end-1ns", ne.plus(-1)), ("new-end", ne), ("new-end+1ns", ne.plus(1))] {
        add(nm.to_string(), {
            let mut o = vec![at(t), attach(CREATOR, 1)];
            o.extend(probe());
            o.push(at(t.plus(1)));
            o.extend(probe());
            o
        });
    }
    // replace twice before anything is active, then the clock walks into the last one
    add("replace-twice".into(), {
        let mut o = vec![attach(CREATOR, 0), attach(CREATOR, 1), attach(CREATOR, 0), attach(CREATOR, 1), at(T(1500, -1))];
        o.extend(probe());
        o.push(at(T(1500, 0)));
        o.push(attach(CREATOR, 0));
        o.extend(probe());
        o
    });
    // the full replacement matrix in one history: attached {not started, active, ended} x new {not started, active, ended}
    {
        let one = |a: u64, b: u64, p: u128, m: &str| mk_spec(vec![stage(T(a, 0), T(b, 0), p, m)]);
        // A [1000,2000)  B [1500,2500)  D [450,700)  E [300,400)  F [900,1200)  L [3500,4000)
        let ws = vec![one(1000, 2000, 60, M1), one(1500, 2500, 70, M2), one(450, 700, 62, M2), one(300, 400, 64, M2), one(900, 1200, 66, M2), one(3500, 4000, 80, M2)];
        let (a_, b_, d_, e_, f_, l_) = (0usize, 1usize, 2usize, 3usize, 4usize, 5usize);
        let m1 = |p: u128| if fam.merkle() && kind.merkle() { COp::MintP { who: M1.into(), funds: native(p), slot: 0, tree: 0, proof_for: Some(M1.into()) } } else { mint(M1, p) };
        // tiered kinds are still active AT their end instant
        let after = |t: u64| if kind.tiered() { T(t, 1) } else { T(t, 0) };
        let ops = vec![
            attach(CREATOR, a_),
            // attached not started x new active / ended / not started
            at(T(500, 0)), attach(CREATOR, d_), attach(CREATOR, e_),
            // attached ended x new not started / active / ended
            attach(CREATOR, a_), attach(CREATOR, e_), attach(CREATOR, d_), attach(CREATOR, e_),
            attach(CREATOR, a_), attach(CREATOR, b_), attach(STRANGER, a_), attach(CREATOR, a_),
            // attached active x new not started / active / ended
            at(T(1000, 0)), attach(CREATOR, l_), attach(CREATOR, f_), attach(CREATOR, e_), attach(CREATOR, a_), m1(60),
            // attached ended x new active / ended / not started
            at(after(2000)), attach(CREATOR, b_), m1(60), attach(CREATOR, e_), attach(CREATOR, l_),
            // attached not started x new ended, and back
            at(after(2500)), attach(CREATOR, b_), attach(CREATOR, l_), mint(NM, PUB),
            // after the public start nothing moves any more
            at(T(START, 0)), attach(CREATOR, b_), mint(NM, PUB),
        ];
        v.push(base_case(format!("set-whitelist:{}:{}:replace-matrix", fam.name(), kind.name()), fam, ws, ops));
    }
    v
}


/// feature interactions: a whitelist that is still active after the public start, combined
/// with every price-affecting admin call available at that moment (discount set / removed
/// after its cooldown / set again, unit price lowered), a per-address-limit update and a
/// governance change of the factory minimum; members and non-members offer the whitelist
/// price, the discount price and the public price after each of them; then the same after
/// the whitelist has ended (the discount applies from then on)
fn overlap_cases(fam: Fam, kind: Kind) -> Vec<Case> {
    let st = |s: T, e: T, p: u128, m: &[&str]| StageSpec { start: s, end: e, price: p, members: m.iter().map(|x| x.to_string()).collect(), stage_limit: None };
    let h = 3600u64;
    // vending: the window outlives the 12 h discount cooldown; open edition: it closes before the end time
    let wend = if fam.oe { T(4500, 0) } else { T(START + 14 * h, 0) };
    let (stages, tree) = if kind.tiered() {
        // the second stage straddles the public start
        (vec![st(T(1000, 0), T(2000, 0), 60, &[M1]), st(T(START - 200, 0), wend, 70, &[M1, M2])], 1usize)
    } else {
        (vec![st(T(START - 500, 0), wend, 60, &[M1, M2])], 0usize)
    };
    let wlp = stages[tree].price;
    let spec = WlSpec { kind, stages, limit: 9, leaf_fmt: 1, extra_lists: vec![], short_lists: 0 };
    let member = |who: &str, p: u128| -> COp {
        if fam.merkle() && kind.merkle() {
            mintp(who, p, tree, Some(who))
        } else {
            mint(who, p)
        }
    };
    // everybody tries every price that is around
    let round = |who: &str, prices: &[u128]| -> Vec<COp> {
        let mut o = vec![];
        for p in prices.iter().take(2) {
            o.push(member(NM, *p));
        }
        for p in prices {
            if *p != wlp {
                o.push(member(who, *p));
            }
        }
        o.push(member(who, wlp));
        o
    };
    let upd = |who: &str, p: u128| COp::UpdateDiscount { who: who.into(), price: p };
    let mut v = vec![];
    let t1 = T(START + 10, 0);
    let mut ops = vec![attach(CREATOR, 0), at(T(START - 1, 0))];
    // before the start: members mint, no price update that needs a started sale works
    ops.extend(round(M1, &[wlp, PUB]));
    ops.push(upd(CREATOR, 80));
    ops.push(at(t1));
    ops.extend(round(M2, &[wlp, PUB]));
    if fam.oe {
        // open edition: unit price lowered, per-address limit changed, factory minimum raised above the whitelist price
        ops.push(COp::UpdateMintPrice { who: CREATOR.into(), price: 90 });
        ops.extend(round(M1, &[wlp, 90, PUB]));
        ops.push(COp::UpdatePal { who: CREATOR.into(), limit: 1 });
        ops.extend(round(M2, &[wlp, 90]));
        ops.push(COp::SudoMinPrice { price: 75 });
        ops.extend(round(M1, &[wlp, 90]));
        ops.push(COp::UpdateMintPrice { who: CREATOR.into(), price: 80 });
        ops.extend(round(M2, &[wlp, 80, 90]));
        // the whitelist ends before the end time: the public price applies
        for t in [wend.plus(-1), wend, wend.plus(1)] {
            ops.push(at(t));
            ops.extend(round(M1, &[wlp, 80, 90]));
        }
        v.push(base_case(format!("overlap:{}:{}:price-limit-minimum", fam.name(), kind.name()), fam, vec![spec], ops));
        return v;
    }
    // vending: discount set while the whitelist is active
    ops.push(upd(STRANGER, 80));
    ops.push(upd(CREATOR, 80));
    ops.extend(round(M1, &[wlp, 80, PUB]));
    // unit price lowered below nothing in particular: the discount stays, the whitelist still rules
    ops.push(COp::UpdateMintPrice { who: CREATOR.into(), price: 90 });
    ops.extend(round(M2, &[wlp, 80, 90]));
    // removal needs one hour; a second discount needs twelve
    ops.push(COp::RemoveDiscount { who: CREATOR.into() });
    ops.push(at(T(START + 10 + h, -1)));
    ops.push(COp::RemoveDiscount { who: CREATOR.into() });
    ops.push(at(T(START + 10 + h, 0)));
    ops.push(COp::RemoveDiscount { who: STRANGER.into() });
    ops.push(COp::RemoveDiscount { who: CREATOR.into() });
    ops.extend(round(M1, &[wlp, 80, 90]));
    ops.push(COp::UpdatePal { who: CREATOR.into(), limit: 1 });
    ops.extend(round(M2, &[wlp, 90]));
    ops.push(COp::SudoMinPrice { price: 75 });
    ops.extend(round(M1, &[wlp, 90]));
    ops.push(at(T(START + 10 + 13 * h, -1)));
    ops.push(upd(CREATOR, 85));
    ops.push(at(T(START + 10 + 13 * h, 0)));
    ops.push(upd(CREATOR, 74));
    ops.push(upd(CREATOR, 85));
    ops.extend(round(M2, &[wlp, 85, 90]));
    // the whitelist ends with the discount still set: from now on the discount is the price
    for t in [wend.plus(-1), wend, wend.plus(1)] {
        ops.push(at(t));
        ops.extend(round(M1, &[wlp, 85, 90]));
    }
    let mut c = base_case(format!("overlap:{}:{}:discount-price-limit-minimum", fam.name(), kind.name()), fam, vec![spec.clone()], ops);
    c.num_tokens = 40;
    v.push(c);
    // the short one: nothing but start, discount, member
    v.push(base_case(
        format!("overlap:{}:{}:discount-then-member", fam.name(), kind.name()),
        fam,
        vec![spec],
        vec![attach(CREATOR, 0), at(t1), upd(CREATOR, 80), member(M1, 80), member(M1, PUB), member(NM, 80), member(M1, wlp), member(NM, wlp)],
    ));
    v
}

/// whitelist administration after the whitelist was attached (or before it replaces another
/// one): stage removal and re-creation, member removal / addition, schedule and price updates,
/// by the admin and by a stranger; current, former and never members then offer the current
/// and the former price at the (new) edges.  `full` = every history (thorough tier / rotating
/// pairing), otherwise the three that matter most.
fn wl_admin_cases(fam: Fam, kind: Kind, full: bool) -> Vec<Case> {
    let st = |s: T, e: T, p: u128, m: &[&str]| StageSpec { start: s, end: e, price: p, members: m.iter().map(|x| x.to_string()).collect(), stage_limit: None };
    let names = |m: &[&str]| -> Vec<String> { m.iter().map(|x| x.to_string()).collect() };
    let everyone = [M1, M2, NM, STRANGER];
    // every buyer offers every given price; Merkle kinds: with the proof of their own leaf in `tree`
    let round = |tree: usize, prices: &[u128]| -> Vec<COp> {
        let mut o = vec![];
        for who in everyone {
            for p in prices {
                o.push(if fam.merkle() && kind.merkle() { mintp(who, *p, tree, Some(who)) } else { mint(who, *p) });
            }
        }
        o
    };
    let at_round = |t: T, tree: usize, prices: &[u128]| -> Vec<COp> {
        let mut o = vec![at(t)];
        o.extend(round(tree, prices));
        o
    };
    let mut v = vec![];
    let mut add = |name: &str, wls: Vec<WlSpec>, ops: Vec<Vec<COp>>| {
        let mut c = base_case(format!("wl-admin:{}:{}:{}", fam.name(), kind.name(), name), fam, wls, ops.into_iter().flatten().collect());
        c.num_tokens = 40;
        v.push(c);
    };
    let mk = |stages: Vec<StageSpec>| WlSpec { kind, stages, limit: 9, leaf_fmt: 0, extra_lists: vec![], short_lists: 0 };
    if kind.tiered() && !kind.merkle() {
        let w3 = mk(vec![st(T(1000, 0), T(1500, 0), 60, &[M1]), st(T(1600, 0), T(2000, 0), 70, &[M2]), st(T(2100, 0), T(2600, 0), 80, &[NM])]);
        let rm = |who: &str, slot: usize, stage: u32| COp::WlRemoveStage { who: who.into(), slot, stage };
        let ads = |who: &str, slot: usize, sg: StageSpec| COp::WlAddStage { who: who.into(), slot, stage: sg };
        // remove the middle stage (and with it the last one), rebuild both with other members and prices
        add("rebuild-after-remove-middle", vec![w3.clone()], vec![
            vec![attach(CREATOR, 0), at(T(500, 0)), rm(STRANGER, 0, 1), rm(CREATOR, 0, 1),
                 ads(STRANGER, 0, st(T(1600, 0), T(2000, 0), 71, &[M2])),
                 ads(CREATOR, 0, st(T(1600, 0), T(2000, 0), 71, &[M2])),
                 ads(CREATOR, 0, st(T(1900, 0), T(2600, 0), 81, &[STRANGER])), // overlaps: rejected
                 ads(CREATOR, 0, st(T(2100, 0), T(2600, 0), 81, &[STRANGER]))],
            at_round(T(1000, 0), 0, &[60]), at_round(T(1600, 0), 1, &[71, 70]),
            at_round(T(2100, -1), 2, &[81]), at_round(T(2100, 0), 2, &[81, 80]), at_round(T(2600, 0), 2, &[81]), at_round(T(2600, 1), 2, &[81]),
        ]);
        // members of a stage removed / added before it starts; removal after the start is refused; addition is not
        add("members", vec![w3.clone()], vec![
            vec![attach(CREATOR, 0), at(T(500, 0)),
                 COp::WlRemove { who: STRANGER.into(), slot: 0, stage: 1, members: names(&[M2]) },
                 COp::WlRemove { who: CREATOR.into(), slot: 0, stage: 1, members: names(&[M2]) },
                 COp::WlAdd { who: CREATOR.into(), slot: 0, stage: 1, members: names(&[STRANGER]) },
                 COp::WlRemove { who: CREATOR.into(), slot: 0, stage: 0, members: names(&[M1, NM]) }, // NM is not there: nothing changes
                 COp::WlAdd { who: CREATOR.into(), slot: 0, stage: 2, members: names(&[M1, M1]) },
                 COp::WlAdd { who: STRANGER.into(), slot: 0, stage: 0, members: names(&[STRANGER]) },
                 COp::WlAdd { who: CREATOR.into(), slot: 0, stage: 3, members: names(&[M2]) }],
            at_round(T(1000, 0), 0, &[60]),
            vec![COp::WlRemove { who: CREATOR.into(), slot: 0, stage: 0, members: names(&[M1]) }, COp::WlAdd { who: CREATOR.into(), slot: 0, stage: 0, members: names(&[NM]) }],
            round(0, &[60]),
            at_round(T(1600, 0), 1, &[70]), at_round(T(2100, 0), 2, &[80]),
        ]);
        // times and price of a stage changed
        add("update-stage", vec![w3.clone()], vec![
            vec![attach(CREATOR, 0), at(T(500, 0)),
                 COp::WlUpdateStage { who: STRANGER.into(), slot: 0, stage: 1, start: None, end: Some(T(1800, 0)), price: Some(75) },
                 COp::WlUpdateStage { who: CREATOR.into(), slot: 0, stage: 1, start: None, end: Some(T(1800, 0)), price: Some(75) },
                 COp::WlUpdateStage { who: CREATOR.into(), slot: 0, stage: 2, start: Some(T(1700, 0)), end: None, price: None }, // would overlap: rejected
                 COp::WlUpdateStage { who: CREATOR.into(), slot: 0, stage: 2, start: Some(T(1900, 5)), end: None, price: None }],
            at_round(T(1600, 0), 1, &[75, 70]), at_round(T(1800, 0), 1, &[75]), at_round(T(1800, 1), 1, &[75]),
            at_round(T(1900, 4), 2, &[80]), at_round(T(1900, 5), 2, &[80]), at_round(T(2100, 0), 2, &[80]),
        ]);

        // ---- instantiate shapes: more / fewer member lists than stages, empty lists; then AddStage
        // makes the index of a surplus list a real stage.  The buyers of a surplus list were never
        // put into any stage: the ledger gives them none.
        let shaped = |stages: Vec<StageSpec>, extra: Vec<Vec<String>>, short: usize| WlSpec { kind, stages, limit: 9, leaf_fmt: 0, extra_lists: extra, short_lists: short };
        let s0 = || st(T(1000, 0), T(1500, 0), 60, &[M1]);
        let s1 = |m: &[&str]| st(T(1600, 0), T(2000, 0), 70, m);
        let s2 = |m: &[&str]| st(T(2100, 0), T(2600, 0), 80, m);
        // one stage, two lists: the second list's index becomes stage 2 by one AddStage
        add("instantiate-one-surplus-list", vec![shaped(vec![s0()], vec![names(&[NM])], 0)], vec![
            vec![attach(CREATOR, 0), at(T(500, 0)), ads(CREATOR, 0, s1(&[M2]))],
            at_round(T(1000, 0), 0, &[60]), at_round(T(1600, -1), 1, &[70]), at_round(T(1600, 0), 1, &[70]), at_round(T(2000, 0), 1, &[70]),
        ]);
        // one stage, three lists: two AddStages walk into both surplus indices
        if full {
        add("instantiate-two-surplus-lists", vec![shaped(vec![s0()], vec![names(&[NM]), names(&[STRANGER, M1])], 0)], vec![
            vec![attach(CREATOR, 0), at(T(500, 0)), ads(CREATOR, 0, s1(&[M2])), ads(CREATOR, 0, s2(&[M2]))],
            at_round(T(1600, 0), 1, &[70]), at_round(T(2100, 0), 2, &[80]), at_round(T(2600, 0), 2, &[80]),
        ]);
        // two stages, three lists, and the surplus buyer is ALSO added properly later on (then he is a member)
        add("instantiate-surplus-then-added", vec![shaped(vec![s0(), s1(&[M2])], vec![names(&[NM, STRANGER])], 0)], vec![
            vec![attach(CREATOR, 0), at(T(500, 0)), ads(CREATOR, 0, s2(&[M1]))],
            at_round(T(2100, 0), 2, &[80]),
            vec![COp::WlAdd { who: CREATOR.into(), slot: 0, stage: 2, members: names(&[NM]) }],
            round(2, &[80]),
        ]);
        }
        // surplus list, then the last real stage is removed and two stages are added: indices 1 and 2 both re-created
        add("instantiate-surplus-remove-rebuild", vec![shaped(vec![s0(), s1(&[M2])], vec![names(&[NM])], 0)], vec![
            vec![attach(CREATOR, 0), at(T(500, 0)), rm(CREATOR, 0, 1), ads(CREATOR, 0, s1(&[STRANGER])), ads(CREATOR, 0, s2(&[M1]))],
            at_round(T(1600, 0), 1, &[70]), at_round(T(2100, 0), 2, &[80]),
        ]);
        if full {
        // empty lists: a stage nobody is in, an empty surplus list, then a stage added with a list
        add("instantiate-empty-lists", vec![shaped(vec![st(T(1000, 0), T(1500, 0), 60, &[]), s1(&[M2])], vec![vec![]], 0)], vec![
            vec![attach(CREATOR, 0), at(T(500, 0)), ads(CREATOR, 0, s2(&[NM]))],
            at_round(T(1000, 0), 0, &[60]), at_round(T(1600, 0), 1, &[70]), at_round(T(2100, 0), 2, &[80]),
        ]);
        }
        // fewer lists than stages: refused at creation as the code stands; should it ever be accepted,
        // the stage without a list has no members
        add("instantiate-fewer-lists", vec![shaped(vec![s0(), s1(&[M2])], vec![], 1)], vec![
            vec![attach(CREATOR, 0), at(T(500, 0)), ads(CREATOR, 0, s2(&[NM]))],
            at_round(T(1000, 0), 0, &[60]), at_round(T(1600, 0), 1, &[70]), at_round(T(2100, 0), 2, &[80]),
        ]);
        if full {
            // everything removed, three new stages with the lists rotated; a fourth is refused
            add("remove-first-rebuild-all", vec![w3.clone()], vec![
                vec![attach(CREATOR, 0), at(T(500, 0)), rm(CREATOR, 0, 0), rm(CREATOR, 0, 0)],
                round(0, &[60]),
                vec![ads(CREATOR, 0, st(T(1000, 0), T(1500, 0), 61, &[M2])), ads(CREATOR, 0, st(T(1600, 0), T(2000, 0), 72, &[NM])),
                     ads(CREATOR, 0, st(T(2100, 0), T(2600, 0), 82, &[M1])), ads(CREATOR, 0, st(T(2700, 0), T(2800, 0), 83, &[STRANGER]))],
                at_round(T(1000, 0), 0, &[61, 60]), at_round(T(1600, 0), 1, &[72]), at_round(T(2100, 0), 2, &[82, 80]), at_round(T(2700, 0), 2, &[83]),
            ]);
            // the last stage removed and re-added later with another list
            add("remove-last-readd", vec![w3.clone()], vec![
                vec![attach(CREATOR, 0), at(T(500, 0)), rm(CREATOR, 0, 2), ads(CREATOR, 0, st(T(2200, 0), T(2700, 0), 83, &[M1]))],
                at_round(T(1600, 0), 1, &[70]), at_round(T(2100, 0), 2, &[80, 83]), at_round(T(2200, 0), 2, &[83, 80]), at_round(T(2700, 1), 2, &[83]),
                vec![rm(CREATOR, 0, 2), rm(CREATOR, 0, 1)],
            ]);
            // surgery on a whitelist that is not attached yet, then it replaces the attached one
            add("rebuild-then-attach", vec![mk(vec![st(T(1000, 0), T(1500, 0), 65, &[M1])]), w3.clone()], vec![
                vec![attach(CREATOR, 0), at(T(400, 0)), rm(CREATOR, 1, 1),
                     ads(CREATOR, 1, st(T(1600, 0), T(2000, 0), 71, &[STRANGER])), ads(CREATOR, 1, st(T(2100, 0), T(2600, 0), 81, &[M2])),
                     attach(CREATOR, 1), COp::WlRemove { who: CREATOR.into(), slot: 1, stage: 0, members: names(&[M1]) }, COp::WlAdd { who: CREATOR.into(), slot: 0, stage: 0, members: names(&[NM]) }],
                at_round(T(1000, 0), 0, &[60, 65]), at_round(T(1600, 0), 1, &[71]), at_round(T(2100, 0), 2, &[81, 80]),
            ]);
        }
    } else if !kind.tiered() && !kind.merkle() {
        let w1 = mk(vec![st(T(1000, 0), T(2000, 0), 60, &[M1, M2])]);
        add("members", vec![w1.clone()], vec![
            vec![attach(CREATOR, 0), at(T(500, 0)),
                 COp::WlRemove { who: STRANGER.into(), slot: 0, stage: 0, members: names(&[M2]) },
                 COp::WlRemove { who: CREATOR.into(), slot: 0, stage: 0, members: names(&[M2]) },
                 COp::WlAdd { who: CREATOR.into(), slot: 0, stage: 0, members: names(&[STRANGER, STRANGER]) },
                 COp::WlRemove { who: CREATOR.into(), slot: 0, stage: 0, members: names(&[M1, NM]) },
                 COp::WlAdd { who: STRANGER.into(), slot: 0, stage: 0, members: names(&[NM]) }],
            at_round(T(1000, -1), 0, &[60]), at_round(T(1000, 0), 0, &[60]),
            vec![COp::WlRemove { who: CREATOR.into(), slot: 0, stage: 0, members: names(&[M1]) }, COp::WlAdd { who: CREATOR.into(), slot: 0, stage: 0, members: names(&[NM]) }],
            round(0, &[60]), at_round(T(2000, 0), 0, &[60]),
        ]);
        add("update-times", vec![w1.clone()], vec![
            vec![attach(CREATOR, 0), at(T(500, 0)),
                 COp::WlUpdateStage { who: STRANGER.into(), slot: 0, stage: 0, start: Some(T(1200, 0)), end: None, price: None },
                 COp::WlUpdateStage { who: CREATOR.into(), slot: 0, stage: 0, start: Some(T(1200, 0)), end: None, price: None }],
            at_round(T(1000, 0), 0, &[60]), at_round(T(1200, -1), 0, &[60]), at_round(T(1200, 0), 0, &[60]),
            vec![at(T(1300, 0)), COp::WlUpdateStage { who: CREATOR.into(), slot: 0, stage: 0, start: Some(T(1400, 0)), end: Some(T(2500, 0)), price: None },
                 COp::WlUpdateStage { who: CREATOR.into(), slot: 0, stage: 0, start: None, end: Some(T(1500, 0)), price: None }],
            at_round(T(1500, -1), 0, &[60]), at_round(T(1500, 0), 0, &[60]), at_round(T(2000, -1), 0, &[60]),
        ]);
        if full {
            add("replace-after-member-change", vec![w1.clone(), mk(vec![st(T(1100, 0), T(1900, 0), 65, &[NM])])], vec![
                vec![attach(CREATOR, 0), at(T(500, 0)), COp::WlAdd { who: CREATOR.into(), slot: 1, stage: 0, members: names(&[M1]) },
                     COp::WlRemove { who: CREATOR.into(), slot: 1, stage: 0, members: names(&[NM]) }, attach(CREATOR, 1),
                     COp::WlAdd { who: CREATOR.into(), slot: 0, stage: 0, members: names(&[STRANGER]) }],
                at_round(T(1000, 0), 0, &[60, 65]), at_round(T(1100, 0), 0, &[65, 60]), at_round(T(1900, 0), 0, &[65]),
            ]);
        }
    } else if kind == Kind::Merkle {
        // the tree is fixed; the window can move
        let w1 = mk(vec![st(T(1000, 0), T(2000, 0), 60, &[M1, M2])]);
        add("update-times", vec![w1], vec![
            vec![attach(CREATOR, 0), at(T(500, 0)),
                 COp::WlUpdateStage { who: STRANGER.into(), slot: 0, stage: 0, start: Some(T(1200, 0)), end: None, price: None },
                 COp::WlUpdateStage { who: CREATOR.into(), slot: 0, stage: 0, start: Some(T(1200, 0)), end: Some(T(1500, 0)), price: None }],
            at_round(T(1000, 0), 0, &[60]), at_round(T(1200, -1), 0, &[60]), at_round(T(1200, 0), 0, &[60]),
            at_round(T(1500, -1), 0, &[60]), at_round(T(1500, 0), 0, &[60]),
        ]);
    } else {
        // tiered Merkle: trees fixed per stage; times and prices can change
        let w2 = mk(vec![st(T(1000, 0), T(1500, 0), 60, &[M1]), st(T(1600, 0), T(2000, 0), 70, &[M2, NM])]);
        add("update-stage", vec![w2], vec![
            vec![attach(CREATOR, 0), at(T(500, 0)),
                 COp::WlUpdateStage { who: STRANGER.into(), slot: 0, stage: 1, start: None, end: Some(T(1800, 0)), price: Some(75) },
                 COp::WlUpdateStage { who: CREATOR.into(), slot: 0, stage: 1, start: Some(T(1550, 0)), end: Some(T(1800, 0)), price: Some(75) },
                 COp::WlUpdateStage { who: CREATOR.into(), slot: 0, stage: 0, start: None, end: Some(T(1560, 0)), price: None }],
            at_round(T(1000, 0), 0, &[60]), at_round(T(1550, -1), 1, &[75]), at_round(T(1550, 0), 1, &[75, 70]),
            at_round(T(1800, 0), 1, &[75]), at_round(T(1800, 1), 1, &[75]),
        ]);
    }
    v
}

/// a random whitelist admin operation on one of the two whitelists of a random history
fn random_wl_op(rng: &mut Rng) -> COp {
    let who: String = (if rng.chance(5, 6) { CREATOR } else { STRANGER }).into();
    let slot = rng.below(2) as usize;
    let stage = rng.below(3) as u32;
    let people = [M1, M2, NM, STRANGER];
    let mut members: Vec<String> = vec![(*rng.pick(&people)).to_string()];
    if rng.chance(1, 3) {
        members.push((*rng.pick(&people)).to_string());
    }
    match rng.below(5) {
        0 => COp::WlAdd { who, slot, stage, members },
        1 => COp::WlRemove { who, slot, stage, members },
        2 => {
            let (a, b) = *rng.pick(&[(1510u64, 1590u64), (2650, 2750), (3700, 3800), (4100, 4200)]);
            COp::WlAddStage { who, slot, stage: StageSpec { start: T(a, 0), end: T(b, 0), price: 77, members, stage_limit: None } }
        }
        3 => COp::WlRemoveStage { who, slot, stage },
        _ => COp::WlUpdateStage { who, slot, stage, start: None, end: Some(T(*rng.pick(&[1400u64, 1800, 2400, 3400]), rng.below(2) as i64)), price: if rng.chance(1, 2) { Some(*rng.pick(&[62u128, 77])) } else { None } },
    }
}

/// creation-time attach: the factory creates the minter with a whitelist that is not started /
/// starts this very instant / is running / is at its end instant / has ended
fn create_cases(fam: Fam, kind: Kind) -> Vec<Case> {
    let spec = WlSpec {
        kind,
        stages: vec![StageSpec { start: T(100, 0), end: T(10000, 0), price: 60, members: vec![M1.to_string()], stage_limit: None }],
        limit: 5,
        leaf_fmt: 0,
        extra_lists: vec![],
        short_lists: 0,
    };
    [("not-started", T(100, -1)), ("at-start", T(100, 0)), ("running", T(5000, 0)), ("at-end-1ns", T(10000, -1)), ("at-end", T(10000, 0)), ("ended", T(10000, 1))]
        .iter()
        .map(|(nm, t)| {
            let mut c = base_case(format!("create:{}:{}:{}", fam.name(), kind.name(), nm), fam, vec![spec.clone()], vec![]);
            c.create_at = Some(*t);
            c
        })
        .collect()
}

/// population probes: one AddMembers and one RemoveMembers message of `n` entries each, the
/// tracked buyers placed first, at index 99, at index 100 and last; a removed member is gone
fn population_cases(fam: Fam, kind: Kind, sizes: &[usize]) -> Vec<Case> {
    let mut v = vec![];
    if kind.merkle() {
        return v;
    }
    for n in sizes {
        let n = *n;
        let mut list: Vec<String> = (0..n).map(|i| format!("filler{}x{:03}", n, i)).collect();
        let mut pos: Vec<usize> = vec![0, 99, 100, n - 1].into_iter().filter(|p| *p < n).collect();
        pos.sort();
        pos.dedup();
        let tracked = [M2, NM, STRANGER, PAYADDR];
        for (k, p_) in pos.iter().enumerate() {
            list[*p_] = tracked[k].to_string();
        }
        let spec = WlSpec {
            kind,
            stages: vec![StageSpec { start: T(1000, 0), end: T(2000, 0), price: 60, members: vec![M1.to_string()], stage_limit: None }],
            limit: 5,
            leaf_fmt: 0,
            extra_lists: vec![],
            short_lists: 0,
        };
        let mut ops = vec![
            attach(CREATOR, 0),
            at(T(500, 0)),
            COp::WlAdd { who: CREATOR.into(), slot: 0, stage: 0, members: list.clone() },
            COp::WlRemove { who: CREATOR.into(), slot: 0, stage: 0, members: list.clone() },
            at(T(1000, 0)),
        ];
        for who in [M1, M2, NM, STRANGER, PAYADDR] {
            ops.push(mint(who, 60));
        }
        // and the other way round: a big addition must reach its last entry
        ops.push(COp::WlAdd { who: CREATOR.into(), slot: 0, stage: 0, members: list.clone() });
        for who in [M2, NM, STRANGER, PAYADDR] {
            ops.push(mint(who, 60));
        }
        v.push(base_case(format!("population:{}:{}:{}", fam.name(), kind.name(), n), fam, vec![spec], ops));
    }
    v
}

/// structured random histories: the clock jumps between boundary instants (+-1ns) of the
/// case's own schedule; mints, schedule updates and whitelist changes in any order
fn random_case(rng: &mut Rng, fam: Fam, n: usize, lits: &[u128]) -> Case {
    let kinds = fam.compatible();
    let kind = *rng.pick(kinds);
    let sh = rng.below(4) as usize;
    let (mut spec, mut bs) = shape(fam, kind, sh);
    spec.leaf_fmt = rng.below(4) as u8;
    if rng.chance(1, 3) {
        spec.stages[0].stage_limit = Some(rng.range(1, 2) as u32);
    }
    // a second whitelist to swap in: a window somewhere before or after the start
    let k2 = *rng.pick(kinds);
    let (a, b) = *rng.pick(&[(1200u64, 1400u64), (2100, 2300), (2800, 3100), (3300, 3600)]);
    let spec2 = WlSpec {
        kind: k2,
        stages: vec![StageSpec { start: T(a, 0), end: T(b, 0), price: 65, members: vec![M2.to_string(), NM.to_string()], stage_limit: None }],
        limit: 5,
        leaf_fmt: 0,
        extra_lists: vec![],
        short_lists: 0,
    };
    bs.push(T(a, 0));
    bs.push(T(b, 0));
    let mut starts = vec![T(START, 0)];
    if fam.oe {
        starts.push(T(END, 0));
    }
    let mut ops = vec![];
    if rng.chance(3, 4) {
        ops.push(attach(CREATOR, 0));
    }
    // whitelist administration while nothing has started yet (most of it is refused later on)
    if rng.chance(2, 3) {
        for _ in 0..rng.range(1, 4) {
            ops.push(random_wl_op(rng));
        }
        if rng.chance(1, 2) {
            ops.push(attach(CREATOR, rng.below(2) as usize));
        }
    }
    let mut now = T(0, 0);
    let buyers = [M1, M2, NM, STRANGER, CREATOR];
    for _ in 0..n {
        match rng.below(100) {
            0..=21 => {
                // jump forward to a boundary instant of the schedule (or just a bit)
                let mut cands: Vec<T> = bs.iter().chain(starts.iter()).flat_map(|b| [b.plus(-1), *b, b.plus(1)]).filter(|t| t.ns() > now.ns()).collect();
                cands.sort();
                let t = if cands.is_empty() || rng.chance(1, 6) { T(now.0 + rng.range(1, 120), rng.below(3) as i64) } else { cands[rng.below(cands.len().min(4) as u64) as usize] };
                now = t;
                ops.push(at(t));
            }
            58..=63 => {
                // price-affecting admin calls in between
                let who = if rng.chance(5, 6) { CREATOR } else { STRANGER };
                let p = *rng.pick(&[PUB - 10, PUB - 20, 70, 55, 49, PUB]);
                ops.push(match rng.below(if fam.oe { 3 } else { 5 }) {
                    0 => COp::UpdateMintPrice { who: who.into(), price: p },
                    1 => COp::UpdatePal { who: who.into(), limit: rng.range(1, 3) as u32 },
                    2 => COp::SudoMinPrice { price: *rng.pick(&[50u128, 55, 75]) },
                    3 => COp::UpdateDiscount { who: who.into(), price: p },
                    _ => COp::RemoveDiscount { who: who.into() },
                });
            }
            22..=57 => {
                let who = *rng.pick(&buyers);
                let prices: Vec<u128> = spec.stages.iter().map(|s| s.price).chain([PUB, 65, PUB - 1, PUB - 10, PUB - 20, 70, 77, 62]).collect();
                // now and then an amount next to a literal of the contract source
                let p = if !lits.is_empty() && rng.chance(1, 12) { *rng.pick(lits) } else { *rng.pick(&prices) };
                if fam.merkle() && rng.chance(2, 3) {
                    let pf = match rng.below(4) {
                        0 => None,
                        1 => Some(*rng.pick(&buyers)),
                        _ => Some(who),
                    };
                    ops.push(COp::MintP { who: who.into(), funds: native(p), slot: rng.below(2) as usize, tree: rng.below(3) as usize, proof_for: pf.map(|s| s.to_string()) });
                } else {
                    ops.push(mint(who, p));
                }
            }
            64..=76 => {
                let who = if rng.chance(5, 6) { CREATOR } else { STRANGER };
                let base = *rng.pick(&[now, now, *starts.last().unwrap(), starts[0], T(now.0 + 60, 0)]);
                let t = base.plus(rng.range(0, 2) as i64 - 1);
                if fam.oe && rng.chance(1, 2) {
                    ops.push(uet(who, t));
                } else {
                    ops.push(ust(who, t));
                }
                starts.push(t);
            }
            77..=88 => {
                let who = if rng.chance(5, 6) { CREATOR } else { STRANGER };
                ops.push(attach(who, rng.below(2) as usize));
            }
            89..=92 => ops.push(COp::WlAddMember { who: (*rng.pick(&[NM, STRANGER])).into() }),
            93..=94 => ops.push(drop_to(fam, *rng.pick(&[CREATOR, CREATOR, STRANGER]))),
            95..=96 => ops.push(random_wl_op(rng)),
            _ => {
                if fam.oe {
                    ops.push(drop_to(fam, CREATOR));
                } else {
                    ops.push(COp::MintFor { who: CREATOR.into(), token_id: rng.range(1, 24) as u32, recipient: M1.into() });
                }
            }
        }
    }
    // migrations of the minter at random places (~2.5 % of the operations)
    {
        let pool = migrate_version_pool();
        let mut i = 0;
        while i <= ops.len() {
            if rng.below(1000) < 25 {
                let (who, stored) = gen_migrate_args(rng, &pool);
                ops.insert(i, COp::Migrate { who, stored });
                i += 1;
            }
            i += 1;
        }
    }
    base_case(format!("random:{}:{}+{}", fam.name(), kind.name(), k2.name()), fam, vec![spec, spec2], ops)
}

/// malformed / adversarial argument stream for the Merkle variants and odd funds
fn malformed_case(rng: &mut Rng, fam: Fam) -> Case {
    let kinds = fam.compatible();
    let kind = *rng.pick(kinds);
    let (spec, _) = shape(fam, kind, 1);
    let mut ops = vec![attach(CREATOR, 0), at(T(1000, 8))];
    for _ in 0..14 {
        let who = *rng.pick(&[M1, NM]);
        let funds = match rng.below(5) {
            0 => vec![],
            1 => vec![(IBC.to_string(), 60)],
            2 => vec![(NATIVE.to_string(), 60), (IBC.to_string(), 60)],
            3 => native(61),
            _ => native(60),
        };
        if fam.merkle() {
            let proof = match rng.below(4) {
                0 => None,
                1 => Some(vec![]),
                2 => Some(vec!["zz".to_string()]),
                _ => Some(vec![hex::encode([7u8; 32]), hex::encode([9u8; 16])]),
            };
            ops.push(COp::MintArgs { who: who.into(), funds, stage: *rng.pick(&[None, Some(0), Some(1), Some(9)]), proof, allocation: *rng.pick(&[None, Some(0), Some(5), Some(1000)]) });
        } else {
            ops.push(COp::Mint { who: who.into(), funds });
        }
    }
    base_case(format!("malformed:{}:{}", fam.name(), kind.name()), fam, vec![spec], ops)
}

fn corpus(thorough: bool, rng: &mut Rng) -> Vec<Case> {
    let mut v = vec![];
    for (fi, fam) in all_fams().into_iter().enumerate() {
        // the start (and end) boundary with no whitelist at all
        v.extend(boundary_cases(fam, None, 0));
        v.extend(migrate_cases(fam));
        let kinds = fam.compatible();
        let nshapes = if fam.oe { 4 } else { 3 };
        for (ki, kind) in kinds.iter().enumerate() {
            for sh in 0..nshapes {
                let cs = boundary_cases(fam, Some(*kind), sh);
                if thorough {
                    v.extend(cs);
                } else {
                    // quick tier: every (variant, kind, shape) keeps the start and end boundaries;
                    // the other boundaries are sampled
                    for c in cs {
                        let keep = (c.label.ends_with(&format!("{:?}", T(START, 0))) && (sh == (fi + ki) % nshapes || rng.chance(1, 3))) || (c.label.ends_with(&format!("{:?}", T(END, 0))) && (sh % 2 == ki % 2 || kind.tiered())) || rng.chance(1, 6);
                        if keep {
                            v.push(c);
                        }
                    }
                }
            }
            v.extend(overlap_cases(fam, *kind));
            v.extend(create_cases(fam, *kind));
            if !(fam.merkle() && kind.tiered() && !kind.merkle()) {
                let rot = thorough || ki == fi % kinds.len();
                let mut sizes: Vec<usize> = if rot { vec![99, 100, 101, 150] } else { vec![101, 150] };
                if thorough {
                    // sizes next to the literals of the whitelist sources (pagination limits)
                    for l in harvest_literals(&["contracts/whitelists/whitelist/src/contract.rs", "contracts/whitelists/tiered-whitelist/src/contract.rs",
                        "contracts/whitelists/whitelist-flex/src/contract.rs", "contracts/whitelists/tiered-whitelist-flex/src/contract.rs"]) {
                        for x in [l.saturating_sub(1), l, l + 1] {
                            if x >= 20 && x <= 220 && !sizes.contains(&(x as usize)) {
                                sizes.push(x as usize);
                            }
                        }
                    }
                }
                v.extend(population_cases(fam, *kind, &sizes));
            }
            // a Merkle vending minter cannot serve the members of a list tiered whitelist at all (see the observation)
            if !(fam.merkle() && kind.tiered() && !kind.merkle()) {
                v.extend(wl_admin_cases(fam, *kind, thorough || ki == fi % kinds.len()));
            }
            if thorough {
                v.extend(set_whitelist_cases(fam, *kind));
            } else if ki == fi % kinds.len() {
                // quick tier: the +1ns neighbours of the old / new whitelist's edges are left to the thorough tier
                v.extend(set_whitelist_cases(fam, *kind).into_iter().filter(|c| c.label.contains(":start") || c.label.contains(":replace-") || c.label.ends_with(":old-start") || c.label.ends_with(":new-end")));
            } else {
                // the start boundary of SetWhitelist for every pairing even in the quick tier
                v.extend(set_whitelist_cases(fam, *kind).into_iter().filter(|c| c.label.ends_with(":replace-matrix")));
            }
        }
        v.extend(update_start_cases(fam, None));
        if fam.oe {
            v.extend(update_end_cases(fam, None));
        }
        if thorough {
            for kind in kinds {
                v.extend(update_start_cases(fam, Some(*kind)));
                if fam.oe {
                    v.extend(update_end_cases(fam, Some(*kind)));
                }
            }
        } else {
            let k = kinds[fi % kinds.len()];
            v.extend(update_start_cases(fam, Some(k)).into_iter().take(2));
            if fam.oe {
                v.extend(update_end_cases(fam, Some(k)).into_iter().take(2));
            }
        }
    }
    v
}

#[derive(Deserialize)]
struct ReplayFile {
    case: Case,
}

pub fn run(a: &Args) {
    let out = OutDir::new(&a.out);
    let mut rep = Report { property: "C04".into(), tier: a.tier.clone(), seed: a.seed, ..Default::default() };
    let cases: Vec<Case> = if let Some(p) = &a.replay {
        let rf: ReplayFile = serde_json::from_str(&std::fs::read_to_string(p).expect("replay file")).expect("replay json");
        vec![rf.case]
    } else {
        let mut rng = Rng::new(a.seed);
        let mut v = corpus(a.thorough(), &mut rng);
        let lits: Vec<u128> = harvest_literals(&[
            "contracts/minters/vending-minter/src/contract.rs",
            "contracts/minters/vending-minter-merkle-wl/src/contract.rs",
            "contracts/minters/open-edition-minter/src/contract.rs",
        ])
        .into_iter()
        .flat_map(|x| [x.saturating_sub(1), x, x + 1])
        .filter(|x| *x > 0 && *x < 1_000_000)
        .collect();
        let per_variant = if a.thorough() { 40 } else { 4 };
        for fam in all_fams() {
            for _ in 0..per_variant {
                let n = if a.thorough() { 60 } else { 36 };
                v.push(random_case(&mut rng, fam, n, &lits));
            }
            v.push(malformed_case(&mut rng, fam));
        }
        // NFT metadata mode of the open editions: every other open-edition case runs with on-chain
        // metadata (sg721-metadata-onchain collection); the gates must not notice
        let mut k = 0usize;
        for c in v.iter_mut() {
            if c.fam.oe {
                k += 1;
                c.onchain = k % 2 == 0;
            }
        }
        v
    };
    let mut coq_cases = vec![];
    let mut nviol = 0;
    let mut per_key_count: BTreeMap<String, u32> = BTreeMap::new();
    let mut instants: BTreeSet<String> = BTreeSet::new();
    let mut observations: BTreeMap<String, u64> = BTreeMap::new();
    let mut classes: BTreeMap<String, (u64, u64)> = BTreeMap::new();
    for (i, c) in cases.iter().enumerate() {
        let r = run_case(c);
        rep.evaluations += r.steps;
        for (k, v) in &r.hist {
            *rep.histogram.entry(k.clone()).or_insert(0) += v;
        }
        for s in &r.instants {
            instants.insert(format!("{}:{}", c.fam.name(), s));
        }
        for (k, n) in &r.observations {
            *observations.entry(k.clone()).or_insert(0) += n;
        }
        rep.distinct_nontrivial += r.ok_steps;
        let cl = classes.entry(format!("{}:{}", if c.fam.oe { "oe" } else { "vending" }, c.label.split(':').next().unwrap_or(""))).or_insert((0u64, 0u64));
        cl.0 += 1;
        cl.1 += r.steps;
        let mut seen = BTreeSet::new();
        // what a buyer was actually charged / allowed comes before what the minter merely announced
        let mut ordered: Vec<&(String, String, usize)> = r.violations.iter().collect();
        ordered.sort_by_key(|v| (v.0.starts_with("C04:announced-price") || v.0 == "C04:whitelist-membership-vs-lists" || v.0.starts_with("C04:whitelist-activity") || v.0 == "C04:whitelist-price-vs-stage", v.2));
        for (key, what, oi) in ordered.into_iter() {
            if !seen.insert(key.clone()) {
                continue;
            }
            nviol += 1;
            // a few replays per kind of violation, so that one frequent kind does not hide the others
            let per_key = per_key_count.entry(key.clone()).or_insert(0u32);
            *per_key += 1;
            if *per_key <= 3 && rep.violations.len() < 30 {
                // shrink: nothing after the offending op is needed
                let mut small = c.clone();
                small.ops.truncate(oi + 1);
                let body = format!(
                    "{{\n \"property\": \"C04\",\n \"case\": {},\n \"violation\": {}\n}}\n",
                    serde_json::to_string(&small).unwrap(),
                    serde_json::to_string(what).unwrap()
                );
                let path = out.write_replay(&format!("C04-{}.json", nviol), &body);
                rep.violations.push(Violation { key: key.clone(), what: format!("[{}] {}", c.label, what), replay: path });
            }
        }
        if rep.samples.len() < 3 && i % 97 == 5 {
            rep.samples.push(json!({"label": c.label, "variant": c.fam.name(),
                "whitelists": c.wls.iter().map(|s| format!("{:?}", s)).collect::<Vec<_>>(),
                "first_ops": c.ops.iter().take(10).map(|o| format!("{:?}", o)).collect::<Vec<_>>(), "steps": r.steps, "ok_steps": r.ok_steps}));
        }
        if let Some(cq) = r.coq {
            coq_cases.push(cq);
        }
    }
    rep.rule = "histories on each of the six vending minters and the three open-edition minters x its compatible whitelist kinds (plain minters x {plain, tiered}; flex x {flex, tiered-flex}; vending merkle x {plain, tiered, merkle, tiered-merkle}; open-edition merkle x {merkle, tiered-merkle}; and no whitelist): per boundary instant of the schedule (minter start; open-edition end; whitelist start/end; every stage edge of 2- and 3-stage tiered whitelists, touching / separated / overlapping the public start / straddling the end) one history that runs the same block of buyers (member, member of another stage, non-member; own proof / someone else's proof / no proof; airdrops at the start and end boundaries) at t-1ns, t, t+1ns; UpdateStartTime (later, earlier-but-not-past, past, at start-1ns / start / start+1ns, up to / beyond the end, non-admin), UpdateEndTime (later, earlier, to now, past, down to / below the start, at end-1ns / end / end+1ns, no end time configured, non-admin) and SetWhitelist (at start-1ns / start / start+1ns, around the old and the new whitelist's activity edges, double replacement, non-admin) histories; structured random interleavings; a malformed-argument stream. evaluations = minter steps executed on the real contracts; distinct_nontrivial = steps that succeeded (state-changing)".into();
    rep.notes.push(format!("{} histories; {} distinct (variant, op kind, clock offset) triples visited", cases.len(), instants.len()));
    rep.notes.push(format!("histories/steps per class: {:?}", classes));
    for (k, n) in &observations {
        rep.notes.push(format!("observation ({} times): {}", n, k));
    }
    out.write_cases(
        "C04",
        "From LP Require Import Num Pay Sg1 Bank MinterVending MinterOpen SaleCorr SaleOeCorr C04Corr.",
        "c04_case",
        "c04_check",
        &coq_cases,
        6,
        &mut rep,
    );
    out.finish(&rep);
    println!("C04 harness: {} cases, {} steps, {} monitor violations", cases.len(), rep.evaluations, nviol);
}
