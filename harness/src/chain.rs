//! The simulated chain: cw-multi-test App with a stargate keeper that turns
//! MsgFundFairburnPool into a bank send to the "fairburn_pool" account (the harness's
//! own copy of the 60-line keeper in the repo's test-suite), plus ContractWrapper boxes
//! for every contract of the workspace with all their entry points.
#![allow(dead_code)]
use cosmwasm_std::testing::{MockApi, MockStorage};
use cosmwasm_std::{
    coins, Addr, Api, BankMsg, Binary, BlockInfo, Coin, CustomMsg, CustomQuery, Empty, Querier, Storage, Timestamp,
};
use cw_multi_test::error::{bail, AnyResult};
use cw_multi_test::{
    no_init, AppBuilder, AppResponse, BankKeeper, BankSudo, Contract, ContractWrapper, CosmosRouter, Executor,
    FailingModule, Module, Stargate, StargateMsg, StargateQuery, SudoMsg, WasmKeeper,
};
use serde::de::DeserializeOwned;

pub const FAIRBURN_POOL: &str = "fairburn_pool";
pub const GENESIS_NS: u64 = 1647032400000000000;

pub struct PoolKeeper;
impl Stargate for PoolKeeper {}
impl Module for PoolKeeper {
    type ExecT = StargateMsg;
    type QueryT = StargateQuery;
    type SudoT = Empty;
    fn execute<ExecC, QueryC>(
        &self,
        api: &dyn Api,
        storage: &mut dyn Storage,
        router: &dyn CosmosRouter<ExecC = ExecC, QueryC = QueryC>,
        block: &BlockInfo,
        sender: Addr,
        msg: Self::ExecT,
    ) -> AnyResult<AppResponse>
    where
        ExecC: CustomMsg + DeserializeOwned + 'static,
        QueryC: CustomQuery + DeserializeOwned + 'static,
    {
        if msg.type_url != crate::util::FUND_POOL_URL {
            bail!("stargate not implemented: {}", msg.type_url)
        }
        // independent decoder (util.rs), not anybuf
        let Some((msg_sender, denom, amount)) = crate::util::decode_fund_fairburn_pool(msg.value.as_slice()) else {
            bail!("MsgFundFairburnPool does not decode")
        };
        // the chain checks the signer: the message's sender field must be the caller
        if msg_sender != sender.as_str() {
            bail!("MsgFundFairburnPool sender {} is not the calling contract {}", msg_sender, sender)
        }
        let send = BankMsg::Send { to_address: FAIRBURN_POOL.to_owned(), amount: coins(amount, denom) }.into();
        match router.execute(api, storage, block, sender, send) {
            Ok(_) => Ok(AppResponse::default()),
            Err(e) => bail!("Error executing fairburn pool funding: {}", e),
        }
    }
    fn sudo<ExecC, QueryC>(
        &self,
        _api: &dyn Api,
        _storage: &mut dyn Storage,
        _router: &dyn CosmosRouter<ExecC = ExecC, QueryC = QueryC>,
        _block: &BlockInfo,
        _msg: Self::SudoT,
    ) -> AnyResult<AppResponse>
    where
        ExecC: CustomMsg + DeserializeOwned + 'static,
        QueryC: CustomQuery + DeserializeOwned + 'static,
    {
        Ok(AppResponse::default())
    }
    fn query(
        &self,
        _api: &dyn Api,
        _storage: &dyn Storage,
        _querier: &dyn Querier,
        _block: &BlockInfo,
        _request: Self::QueryT,
    ) -> AnyResult<Binary> {
        Ok(Binary::default())
    }
}

pub type App = cw_multi_test::App<
    BankKeeper,
    MockApi,
    MockStorage,
    FailingModule<Empty, Empty, Empty>,
    WasmKeeper<Empty, Empty>,
    cw_multi_test::StakeKeeper,
    cw_multi_test::DistributionKeeper,
    FailingModule<cosmwasm_std::IbcMsg, cosmwasm_std::IbcQuery, Empty>,
    FailingModule<cosmwasm_std::GovMsg, Empty, Empty>,
    PoolKeeper,
>;

/// Fresh chain at GENESIS + 1 s, height 1.
pub fn new_app() -> App {
    let mut app = AppBuilder::default().with_stargate(PoolKeeper).build(no_init);
    set_time(&mut app, GENESIS_NS + 1_000_000_000);
    app
}
pub fn set_time(app: &mut App, nanos: u64) {
    let mut b = app.block_info();
    b.time = Timestamp::from_nanos(nanos);
    b.height += 1;
    app.set_block(b);
}
pub fn now(app: &App) -> u64 {
    app.block_info().time.nanos()
}
pub fn mint_coins(app: &mut App, to: &str, amount: u128, denom: &str) {
    app.sudo(SudoMsg::Bank(BankSudo::Mint { to_address: to.to_string(), amount: coins(amount, denom) })).unwrap();
}
pub fn balance(app: &App, who: &str, denom: &str) -> u128 {
    app.wrap().query_balance(who, denom).map(|c: Coin| c.amount.u128()).unwrap_or(0)
}
pub fn supply(app: &App, denom: &str) -> u128 {
    app.wrap().query_supply(denom).map(|c: Coin| c.amount.u128()).unwrap_or(0)
}

type C = Box<dyn Contract<Empty>>;

// ---- factories
pub fn vending_factory() -> C {
    Box::new(
        ContractWrapper::new(
            vending_factory::contract::execute,
            vending_factory::contract::instantiate,
            vending_factory::contract::query,
        )
        .with_sudo(vending_factory::contract::sudo)
        .with_migrate(vending_factory::contract::migrate),
    )
}
pub fn open_edition_factory() -> C {
    Box::new(
        ContractWrapper::new(
            open_edition_factory::contract::execute,
            open_edition_factory::contract::instantiate,
            open_edition_factory::contract::query,
        )
        .with_sudo(open_edition_factory::contract::sudo)
        .with_migrate(open_edition_factory::contract::migrate),
    )
}
pub fn base_factory() -> C {
    Box::new(
        ContractWrapper::new(
            base_factory::contract::execute,
            base_factory::contract::instantiate,
            base_factory::contract::query,
        )
        .with_sudo(base_factory::contract::sudo)
        .with_migrate(base_factory::contract::migrate),
    )
}
pub fn token_merge_factory() -> C {
    Box::new(
        ContractWrapper::new(
            token_merge_factory::contract::execute,
            token_merge_factory::contract::instantiate,
            token_merge_factory::contract::query,
        )
        .with_sudo(token_merge_factory::contract::sudo)
        .with_migrate(token_merge_factory::contract::migrate),
    )
}

// ---- minters
macro_rules! minter_box {
    ($name:ident, $krate:ident) => {
        pub fn $name() -> C {
            Box::new(
                ContractWrapper::new($krate::contract::execute, $krate::contract::instantiate, $krate::contract::query)
                    .with_reply($krate::contract::reply)
                    .with_sudo($krate::contract::sudo)
                    .with_migrate($krate::contract::migrate),
            )
        }
    };
}
minter_box!(vending_minter, vending_minter);
minter_box!(vending_minter_featured, vending_minter_featured);
minter_box!(vending_minter_wl_flex, vending_minter_wl_flex);
minter_box!(vending_minter_wl_flex_featured, vending_minter_wl_flex_featured);
minter_box!(vending_minter_merkle_wl, vending_minter_merkle_wl);
minter_box!(vending_minter_merkle_wl_featured, vending_minter_merkle_wl_featured);
minter_box!(open_edition_minter, open_edition_minter);
minter_box!(open_edition_minter_wl_flex, open_edition_minter_wl_flex);
minter_box!(open_edition_minter_merkle_wl, open_edition_minter_merkle_wl);
minter_box!(token_merge_minter, token_merge_minter);
pub fn base_minter() -> C {
    Box::new(
        ContractWrapper::new(
            base_minter::contract::execute,
            base_minter::contract::instantiate,
            base_minter::contract::query,
        )
        .with_reply(base_minter::contract::reply)
        .with_sudo(base_minter::contract::sudo),
    )
}

// ---- collections
pub fn sg721_base() -> C {
    Box::new(
        ContractWrapper::new(sg721_base::entry::execute, sg721_base::entry::instantiate, sg721_base::entry::query),
    )
}
pub fn sg721_updatable() -> C {
    Box::new(
        ContractWrapper::new(
            sg721_updatable::entry::execute,
            sg721_updatable::entry::instantiate,
            sg721_updatable::entry::query,
        )
        .with_migrate(sg721_updatable::entry::migrate),
    )
}
pub fn sg721_nt() -> C {
    Box::new(
        ContractWrapper::new(sg721_nt::entry::execute, sg721_nt::entry::instantiate, sg721_nt::entry::query)
            .with_migrate(sg721_nt::entry::migrate),
    )
}
pub fn sg721_metadata_onchain() -> C {
    Box::new(
        ContractWrapper::new(
            sg721_metadata_onchain::entry::execute,
            sg721_metadata_onchain::entry::instantiate,
            sg721_metadata_onchain::entry::query,
        )
        .with_migrate(sg721_metadata_onchain::entry::migrate),
    )
}

// ---- whitelists
macro_rules! wl_box {
    ($name:ident, $krate:ident) => {
        pub fn $name() -> C {
            Box::new(ContractWrapper::new(
                $krate::contract::execute,
                $krate::contract::instantiate,
                $krate::contract::query,
            ))
        }
    };
}
wl_box!(whitelist, sg_whitelist);
wl_box!(whitelist_flex, sg_whitelist_flex);
wl_box!(tiered_whitelist, sg_tiered_whitelist);
wl_box!(tiered_whitelist_flex, sg_tiered_whitelist_flex);
wl_box!(whitelist_immutable, whitelist_immutable);
pub fn whitelist_merkletree() -> C {
    Box::new(
        ContractWrapper::new(
            whitelist_mtree::contract::execute,
            whitelist_mtree::contract::instantiate,
            whitelist_mtree::contract::query,
        )
        .with_migrate(whitelist_mtree::contract::migrate),
    )
}
pub fn tiered_whitelist_merkletree() -> C {
    Box::new(
        ContractWrapper::new(
            tiered_whitelist_merkletree::contract::execute,
            tiered_whitelist_merkletree::contract::instantiate,
            tiered_whitelist_merkletree::contract::query,
        )
        .with_migrate(tiered_whitelist_merkletree::contract::migrate),
    )
}

// ---- splits, group, airdrop
pub fn splits() -> C {
    Box::new(
        ContractWrapper::new_with_empty(
            sg_splits::contract::execute,
            sg_splits::contract::instantiate,
            sg_splits::contract::query,
        )
        .with_reply_empty(sg_splits::contract::reply)
        .with_migrate_empty(sg_splits::contract::migrate),
    )
}
pub fn cw4_group() -> C {
    Box::new(ContractWrapper::new_with_empty(
        cw4_group::contract::execute,
        cw4_group::contract::instantiate,
        cw4_group::contract::query,
    ))
}
pub fn eth_airdrop() -> C {
    Box::new(
        ContractWrapper::new(
            sg_eth_airdrop::contract::execute,
            sg_eth_airdrop::contract::instantiate,
            sg_eth_airdrop::query::query,
        )
        .with_reply(sg_eth_airdrop::reply::reply),
    )
}

/// sha-256 digest of a contract's whole raw storage (for "rejected => nothing changed")
pub fn storage_digest(app: &App, addr: &Addr) -> String {
    use sha2::{Digest, Sha256};
    let st = app.contract_storage(addr);
    let mut h = Sha256::new();
    for (k, v) in st.range(None, None, cosmwasm_std::Order::Ascending) {
        h.update((k.len() as u64).to_be_bytes());
        h.update(&k);
        h.update((v.len() as u64).to_be_bytes());
        h.update(&v);
    }
    hex::encode(h.finalize())
}

/// execute catching panics; the App stays usable afterwards
pub fn exec<T: serde::Serialize + std::fmt::Debug>(
    app: &mut App,
    sender: &str,
    contract: &Addr,
    msg: &T,
    funds: &[Coin],
) -> Result<AppResponse, String> {
    match crate::util::catch(|| app.execute_contract(Addr::unchecked(sender), contract.clone(), msg, funds)) {
        Ok(Ok(r)) => Ok(r),
        Ok(Err(e)) => Err(format!("{:#}", e)),
        Err(p) => Err(p),
    }
}
pub fn sudo<T: serde::Serialize>(app: &mut App, contract: &Addr, msg: &T) -> Result<AppResponse, String> {
    match crate::util::catch(|| app.wasm_sudo(contract.clone(), msg)) {
        Ok(Ok(r)) => Ok(r),
        Ok(Err(e)) => Err(format!("{:#}", e)),
        Err(p) => Err(p),
    }
}
