//! w_airdrop: the airdrop world (C16).  Real contracts in cw-multi-test: vending
//! factory -> vending minter + sg721-base collection, a plain sg-whitelist as the
//! collection's whitelist, sg-eth-airdrop which instantiates its own whitelist-immutable.
//! The setup steps are the harness's own copy of what test-suite/src/sg_eth_airdrop does
//! (no dependency on the test-suite crate).  Also here: an eth key/signature toolbox and
//! an *independent* personal-sign verifier (ethers-core's k256 0.11 + tiny-keccak; the
//! contract uses cosmwasm-crypto's k256 0.13 + sha3 through packages/ethereum-verify).
#![allow(dead_code, unused_imports)]
use crate::chain;
use cosmwasm_std::testing::{MockApi, MockStorage};
use cosmwasm_std::{
    coin, coins, Addr, Api, BankMsg, Binary, BlockInfo, Coin, CustomMsg, CustomQuery, Decimal, Empty, Querier, Storage,
    Timestamp,
};
use cw_multi_test::error::{bail, AnyResult};
use cw_multi_test::{
    no_init, AppBuilder, AppResponse, BankKeeper, BankSudo, CosmosRouter, Executor, FailingModule, Module, Stargate,
    StargateMsg, StargateQuery, SudoMsg, WasmKeeper,
};
use serde::de::DeserializeOwned;
use ethers_core::k256::ecdsa::SigningKey;
use ethers_signers::{LocalWallet, Signer};

pub const NATIVE: &str = "ustars";
pub const CREATOR: &str = "creator";
pub const FACTORY_CREATION_FEE: u128 = 5_000_000_000;
pub const WL_MINT_PRICE: u128 = 66_000_000;
pub const DAY_NS: u64 = 86_400_000_000_000;

pub use crate::chain::App;
fn mint_coins(app: &mut App, to: &str, amount: u128, denom: &str) {
    chain::mint_coins(app, to, amount, denom)
}
fn bank_balance(app: &App, who: &str, denom: &str) -> u128 {
    chain::balance(app, who, denom)
}
fn storage_digest(app: &App, addr: &Addr) -> String {
    chain::storage_digest(app, addr)
}
/// what chain.rs's keeper says when a MsgFundFairburnPool names somebody else than the
/// emitting contract as sender (sg-eth-airdrop's instantiate did, before fix d25169f)
pub const SIGNER_MISMATCH: &str = "is not the calling contract";

/// What a world is built from.  Everything the property quantifies over at world level.
#[derive(Clone, Debug, serde::Serialize, serde::Deserialize, PartialEq, Eq)]
pub struct WorldSpec {
    /// claim_msg_plaintext
    pub template: String,
    pub airdrop_amount: u128,
    pub per_address_limit: u32,
    /// the strings handed to the airdrop's address list (exactly as given)
    pub list: Vec<String>,
    /// ustars attached to instantiate (fee + what funds the claims)
    pub inst_funds: u128,
    /// extra ustars minted to the airdrop contract afterwards
    pub top_up: u128,
    /// member_limit of the collection whitelist
    pub cwl_member_limit: u32,
    /// is the airdrop contract made an admin of the collection whitelist
    pub airdrop_is_wl_admin: bool,
    /// does the minter name a whitelist at all
    pub minter_has_whitelist: bool,
    /// members the collection whitelist starts with
    pub cwl_initial_members: Vec<String>,
}

impl WorldSpec {
    pub fn basic(list: Vec<String>, limit: u32) -> Self {
        WorldSpec {
            template: "My Stargaze address is {wallet} and I want a Winter Pal.".into(),
            airdrop_amount: 66_000_000,
            per_address_limit: limit,
            list,
            inst_funds: 100_000_000 + 20 * 66_000_000,
            top_up: 0,
            cwl_member_limit: 1000,
            airdrop_is_wl_admin: true,
            minter_has_whitelist: true,
            cwl_initial_members: vec![],
        }
    }
}

pub struct World {
    pub app: App,
    pub spec: WorldSpec,
    pub factory: Addr,
    pub minter: Addr,
    pub collection_wl: Addr,
    pub airdrop: Addr,
    /// the whitelist-immutable the airdrop created (read back from its CONFIG)
    pub immutable_wl: Addr,
    /// what the airdrop's instantiate burned / sent to the fair-burn pool
    pub fee_burned: u128,
    pub fee_pooled: u128,
}

/// Result of trying to build a world: instantiate of the airdrop may be rejected (that is
/// an observation of C16's instantiate validations, not a harness failure).
pub enum Built {
    Ok(World),
    AirdropRejected { err: String, creator_paid: u128 },
}

pub fn build(spec: &WorldSpec) -> Built {
    let mut app = chain::new_app();
    mint_coins(&mut app, CREATOR, 1_000_000_000_000_000_000, NATIVE);
    let now = app.block_info().time.nanos();
    let start = chain::GENESIS_NS + 10 * DAY_NS;

    // collection whitelist (plain sg-whitelist)
    let wl_code = app.store_code(chain::whitelist());
    let wl_fee = ((spec.cwl_member_limit as u128 + 999) / 1000) * 100_000_000;
    let collection_wl = app
        .instantiate_contract(
            wl_code,
            Addr::unchecked(CREATOR),
            &sg_whitelist::msg::InstantiateMsg {
                members: spec.cwl_initial_members.clone(),
                start_time: Timestamp::from_nanos(now + DAY_NS),
                end_time: Timestamp::from_nanos(now + 2 * DAY_NS),
                mint_price: coin(WL_MINT_PRICE, NATIVE),
                per_address_limit: 1,
                member_limit: spec.cwl_member_limit,
                admins: vec![CREATOR.to_string()],
                admins_mutable: true,
            },
            &coins(wl_fee, NATIVE),
            "collection whitelist",
            None,
        )
        .expect("collection whitelist instantiates");

    // factory, minter (through the factory), collection
    let minter_code = app.store_code(chain::vending_minter());
    let sg721_code = app.store_code(chain::sg721_base());
    let factory_code = app.store_code(chain::vending_factory());
    let params = vending_factory::state::VendingMinterParams {
        code_id: minter_code,
        allowed_sg721_code_ids: vec![sg721_code],
        frozen: false,
        creation_fee: coin(FACTORY_CREATION_FEE, NATIVE),
        min_mint_price: coin(50_000_000, NATIVE),
        mint_fee_bps: 1_000,
        max_trading_offset_secs: 60 * 60 * 24 * 7,
        extension: vending_factory::state::ParamsExtension {
            max_token_limit: 10_000,
            max_per_address_limit: 50,
            airdrop_mint_price: coin(0, NATIVE),
            airdrop_mint_fee_bps: 10_000,
            shuffle_fee: coin(500_000_000, NATIVE),
        },
    };
    let factory = app
        .instantiate_contract(
            factory_code,
            Addr::unchecked(CREATOR),
            &vending_factory::msg::InstantiateMsg { params },
            &[],
            "factory",
            None,
        )
        .expect("factory instantiates");
    let create = vending_factory::msg::VendingMinterCreateMsg {
        init_msg: vending_factory::msg::VendingMinterInitMsgExtension {
            base_token_uri: "ipfs://aldkfjads".to_string(),
            payment_address: None,
            start_time: Timestamp::from_nanos(start),
            num_tokens: 100,
            mint_price: coin(100_000_000, NATIVE),
            per_address_limit: 3,
            whitelist: if spec.minter_has_whitelist { Some(collection_wl.to_string()) } else { None },
        },
        collection_params: sg2::msg::CollectionParams {
            code_id: sg721_code,
            name: "Collection Name".to_string(),
            symbol: "COL".to_string(),
            info: sg721::CollectionInfo {
                creator: CREATOR.to_string(),
                description: "Stargaze Monkeys".to_string(),
                image: "https://example.com/image.png".to_string(),
                external_link: Some("https://example.com/external.html".to_string()),
                start_trading_time: None,
                explicit_content: Some(false),
                royalty_info: Some(sg721::RoyaltyInfoResponse {
                    payment_address: CREATOR.to_string(),
                    share: Decimal::percent(10),
                }),
            },
        },
    };
    let res = app
        .execute_contract(
            Addr::unchecked(CREATOR),
            factory.clone(),
            &sg2::msg::Sg2ExecuteMsg::CreateMinter(create),
            &coins(FACTORY_CREATION_FEE, NATIVE),
        )
        .expect("minter is created");
    // the minter is the first contract instantiated inside that call
    let minter = res
        .events
        .iter()
        .filter(|e| e.ty == "instantiate")
        .filter_map(|e| e.attributes.iter().find(|a| a.key == "_contract_addr" || a.key == "_contract_address"))
        .map(|a| Addr::unchecked(a.value.clone()))
        .next()
        .expect("minter address in events");
    let mc: vending_minter::msg::ConfigResponse =
        app.wrap().query_wasm_smart(minter.clone(), &vending_minter::msg::QueryMsg::Config {}).expect("minter config");
    assert_eq!(mc.whitelist.is_some(), spec.minter_has_whitelist);

    // the airdrop
    let airdrop_code = app.store_code(chain::eth_airdrop());
    let wi_code = app.store_code(chain::whitelist_immutable());
    let before = bank_balance(&app, CREATOR, NATIVE);
    let pool_before = bank_balance(&app, chain::FAIRBURN_POOL, NATIVE);
    let msg = sg_eth_airdrop::msg::InstantiateMsg {
        admin: Addr::unchecked(CREATOR),
        claim_msg_plaintext: spec.template.clone(),
        airdrop_amount: spec.airdrop_amount,
        addresses: spec.list.clone(),
        whitelist_code_id: wi_code,
        minter_address: minter.clone(),
        per_address_limit: spec.per_address_limit,
    };
    let funds: Vec<Coin> = if spec.inst_funds == 0 { vec![] } else { coins(spec.inst_funds, NATIVE) };
    let r = crate::util::catch(|| {
        app.instantiate_contract(airdrop_code, Addr::unchecked(CREATOR), &msg, &funds, "sg-eth-airdrop", None)
    });
    let airdrop = match r {
        Ok(Ok(a)) => a,
        Ok(Err(e)) => {
            let after = bank_balance(&app, CREATOR, NATIVE);
            return Built::AirdropRejected { err: format!("{:#}", e), creator_paid: before - after };
        }
        Err(p) => {
            let after = bank_balance(&app, CREATOR, NATIVE);
            return Built::AirdropRejected { err: p, creator_paid: before - after };
        }
    };
    // cw-multi-test's bank has no supply query: what the creator paid and neither the
    // contract nor the pool holds has been burned
    let fee_pooled = bank_balance(&app, chain::FAIRBURN_POOL, NATIVE) - pool_before;
    let creator_paid = before - bank_balance(&app, CREATOR, NATIVE);
    let fee_burned = creator_paid.saturating_sub(bank_balance(&app, airdrop.as_str(), NATIVE)).saturating_sub(fee_pooled);
    let cfg = sg_eth_airdrop::state::CONFIG.load(&*app.contract_storage(&airdrop)).expect("airdrop config");
    let immutable_wl = Addr::unchecked(cfg.whitelist_address.expect("reply stored the whitelist address"));
    if spec.top_up > 0 {
        mint_coins(&mut app, airdrop.as_str(), spec.top_up, NATIVE);
    }
    if spec.airdrop_is_wl_admin {
        app.execute_contract(
            Addr::unchecked(CREATOR),
            collection_wl.clone(),
            &sg_whitelist::msg::ExecuteMsg::UpdateAdmins { admins: vec![CREATOR.to_string(), airdrop.to_string()] },
            &[],
        )
        .expect("whitelist admins updated");
    }
    Built::Ok(World { app, spec: spec.clone(), factory, minter, collection_wl, airdrop, immutable_wl, fee_burned, fee_pooled })
}

impl World {
    pub fn claim(&mut self, sender: &str, eth_address: &str, eth_sig: &str) -> Result<cw_multi_test::AppResponse, String> {
        let msg = sg_eth_airdrop::msg::ExecuteMsg::ClaimAirdrop {
            eth_address: eth_address.to_string(),
            eth_sig: eth_sig.to_string(),
        };
        let airdrop = self.airdrop.clone();
        let app = &mut self.app;
        match crate::util::catch(|| app.execute_contract(Addr::unchecked(sender), airdrop, &msg, &[])) {
            Ok(Ok(r)) => Ok(r),
            Ok(Err(e)) => Err(format!("{:#}", e)),
            Err(p) => Err(p),
        }
    }
    pub fn eligible(&self, eth_address: &str) -> Option<bool> {
        self.app
            .wrap()
            .query_wasm_smart(
                self.airdrop.clone(),
                &sg_eth_airdrop::msg::QueryMsg::AirdropEligible { eth_address: eth_address.to_string() },
            )
            .ok()
    }
    pub fn has_member(&self, who: &str) -> Option<bool> {
        let r: Result<sg_whitelist::msg::HasMemberResponse, _> = self
            .app
            .wrap()
            .query_wasm_smart(self.collection_wl.clone(), &sg_whitelist::msg::QueryMsg::HasMember { member: who.to_string() });
        r.ok().map(|x| x.has_member)
    }
    /// an execute on the collection whitelist by its own admin (the creator)
    pub fn wl_admin_exec(&mut self, msg: &sg_whitelist::msg::ExecuteMsg) -> Result<cw_multi_test::AppResponse, String> {
        let wl = self.collection_wl.clone();
        chain::exec(&mut self.app, CREATOR, &wl, msg, &[])
    }
    pub fn wl_num_members(&self) -> u32 {
        sg_whitelist::state::CONFIG.load(&*self.app.contract_storage(&self.collection_wl)).map(|c| c.num_members).unwrap_or(0)
    }
    /// raw ADDRS_TO_MINT_COUNT entry
    pub fn raw_count(&self, eth_address: &str) -> Option<u32> {
        sg_eth_airdrop::state::ADDRS_TO_MINT_COUNT.may_load(&*self.app.contract_storage(&self.airdrop), eth_address).ok().flatten()
    }
    /// all raw ADDRS_TO_MINT_COUNT entries
    pub fn raw_counts(&self) -> Vec<(String, u32)> {
        sg_eth_airdrop::state::ADDRS_TO_MINT_COUNT
            .range(&*self.app.contract_storage(&self.airdrop), None, None, cosmwasm_std::Order::Ascending)
            .filter_map(|r| r.ok())
            .collect()
    }
    pub fn balance(&self, who: &str) -> u128 {
        bank_balance(&self.app, who, NATIVE)
    }
    pub fn airdrop_balance(&self) -> u128 {
        bank_balance(&self.app, self.airdrop.as_str(), NATIVE)
    }
    pub fn digests(&self) -> (String, String, String) {
        (
            storage_digest(&self.app, &self.airdrop),
            storage_digest(&self.app, &self.collection_wl),
            storage_digest(&self.app, &self.immutable_wl),
        )
    }
}

// ---------------------------------------------------------------------------------
// eth keys and signatures (ethers), deterministic from a seed
// ---------------------------------------------------------------------------------

pub struct EthKey {
    pub wallet: LocalWallet,
    /// "0x" + 40 lowercase hex
    pub addr_lower: String,
    pub addr_bytes: [u8; 20],
}

/// key number `i` of a run: private key = keccak(seed || i) (retry on the 2^-128 chance
/// of an invalid scalar); no OS randomness
pub fn eth_key(seed: u64, i: u64) -> EthKey {
    let mut ctr = 0u64;
    loop {
        let mut pre = b"lpverif-c16-key".to_vec();
        pre.extend(seed.to_be_bytes());
        pre.extend(i.to_be_bytes());
        pre.extend(ctr.to_be_bytes());
        let sk = ethers_core::utils::keccak256(&pre);
        if let Ok(key) = SigningKey::from_bytes(&sk) {
            let wallet = LocalWallet::from(key);
            let a = wallet.address();
            let addr_bytes: [u8; 20] = a.0;
            return EthKey { wallet, addr_lower: format!("0x{}", hex::encode(addr_bytes)), addr_bytes };
        }
        ctr += 1;
    }
}

/// personal_sign over `text`; 65 bytes r || s || v with v in {27, 28}
pub fn personal_sign(k: &EthKey, text: &str) -> [u8; 65] {
    let sig = async_std::task::block_on(k.wallet.sign_message(text)).expect("sign");
    let v = sig.to_vec();
    let mut out = [0u8; 65];
    out.copy_from_slice(&v);
    out
}

// ---------------------------------------------------------------------------------
// the independent verifier.  Nothing below calls packages/ethereum-verify, the `hex`
// crate, sha3 or cosmwasm-crypto.
// ---------------------------------------------------------------------------------

/// strict hex decoding: even length, [0-9a-fA-F] only
pub fn ind_hex_decode(s: &str) -> Option<Vec<u8>> {
    ind_hex_decode_bytes(s.as_bytes())
}
pub fn ind_hex_decode_bytes(b: &[u8]) -> Option<Vec<u8>> {
    if b.len() % 2 != 0 {
        return None;
    }
    fn nib(c: u8) -> Option<u8> {
        match c {
            b'0'..=b'9' => Some(c - b'0'),
            b'a'..=b'f' => Some(c - b'a' + 10),
            b'A'..=b'F' => Some(c - b'A' + 10),
            _ => None,
        }
    }
    let mut out = Vec::with_capacity(b.len() / 2);
    for p in b.chunks(2) {
        out.push(nib(p[0])? * 16 + nib(p[1])?);
    }
    Some(out)
}

/// bytes that personal_sign hashes: "\x19Ethereum Signed Message:\n" + decimal byte length + text
pub fn ind_eth_preimage(text: &str) -> Vec<u8> {
    let mut v = vec![0x19u8];
    v.extend_from_slice(b"Ethereum Signed Message:\n");
    v.extend_from_slice(text.len().to_string().as_bytes());
    v.extend_from_slice(text.as_bytes());
    v
}
pub fn ind_keccak(data: &[u8]) -> [u8; 32] {
    ethers_core::utils::keccak256(data)
}

/// ECDSA public-key recovery on secp256k1 (k256 0.11 as re-exported by ethers-core):
/// uncompressed SEC1 point (65 bytes, 0x04 || X || Y) or None.  `recid` in {0,1}.
pub fn ind_recover(hash: &[u8], rs: &[u8], recid: u8) -> Option<Vec<u8>> {
    use ethers_core::k256::ecdsa::recoverable;
    use ethers_core::k256::ecdsa::Signature as KSig;
    use ethers_core::k256::elliptic_curve::sec1::ToEncodedPoint;
    if hash.len() != 32 || rs.len() != 64 || recid > 1 {
        return None;
    }
    let sig = KSig::try_from(rs).ok()?;
    let id = recoverable::Id::new(recid).ok()?;
    let rsig = recoverable::Signature::new(&sig, id).ok()?;
    let h = ethers_core::k256::FieldBytes::clone_from_slice(hash);
    let vk = rsig.recover_verifying_key_from_digest_bytes(&h).ok()?;
    Some(vk.to_encoded_point(false).as_bytes().to_vec())
}

/// last 20 bytes of keccak(X || Y) of an uncompressed point
pub fn ind_address_of(pubkey: &[u8]) -> Option<[u8; 20]> {
    if pubkey.len() != 65 || pubkey[0] != 4 {
        return None;
    }
    let h = ind_keccak(&pubkey[1..]);
    let mut a = [0u8; 20];
    a.copy_from_slice(&h[12..]);
    Some(a)
}

/// textbook ECDSA verification (no low-S rule): u1 = z/s, u2 = r/s, (u1 G + u2 Q).x mod n == r
pub fn ind_verify(hash: &[u8], rs: &[u8], pubkey: &[u8]) -> Option<bool> {
    use ethers_core::k256::elliptic_curve::group::Curve;
    use ethers_core::k256::elliptic_curve::ops::Reduce;
    use ethers_core::k256::elliptic_curve::sec1::{FromEncodedPoint, ToEncodedPoint};
    use ethers_core::k256::elliptic_curve::PrimeField;
    use ethers_core::k256::{AffinePoint, EncodedPoint, FieldBytes, ProjectivePoint, Scalar, U256};
    if hash.len() != 32 || rs.len() != 64 {
        return None;
    }
    let r: Option<Scalar> = Scalar::from_repr(FieldBytes::clone_from_slice(&rs[..32])).into();
    let s: Option<Scalar> = Scalar::from_repr(FieldBytes::clone_from_slice(&rs[32..])).into();
    let (r, s) = (r?, s?);
    if bool::from(r.is_zero()) || bool::from(s.is_zero()) {
        return None;
    }
    let ep = EncodedPoint::from_bytes(pubkey).ok()?;
    let q: Option<AffinePoint> = AffinePoint::from_encoded_point(&ep).into();
    let q = ProjectivePoint::from(q?);
    let z = <Scalar as Reduce<U256>>::from_be_bytes_reduced(FieldBytes::clone_from_slice(hash));
    let s_inv: Option<Scalar> = s.invert().into();
    let s_inv = s_inv?;
    let u1 = z * s_inv;
    let u2 = r * s_inv;
    let p = (ProjectivePoint::GENERATOR * u1 + q * u2).to_affine();
    let enc = p.to_encoded_point(false);
    let Some(x) = enc.x() else { return Some(false) };
    let xr = <Scalar as Reduce<U256>>::from_be_bytes_reduced(*x);
    Some(xr == r)
}

/// The property's reading of "a valid personal-sign signature by `eth_address` over
/// `text`": the address is 0x + 40 hex digits, the signature is 65 bytes r||s||v with
/// v one of 27, 28 (or the raw recovery ids 0, 1), and the key recovered from it is the
/// address's key and verifies.
pub fn ind_valid_personal_sign(eth_address: &str, text: &str, sig_hex: &str) -> bool {
    let Some(sig) = ind_hex_decode(sig_hex) else { return false };
    if sig.len() != 65 {
        return false;
    }
    if eth_address.len() != 42 || !eth_address.starts_with("0x") {
        return false;
    }
    let Some(addr) = ind_hex_decode(&eth_address[2..]) else { return false };
    let recid = match sig[64] {
        0 | 27 => 0,
        1 | 28 => 1,
        _ => return false,
    };
    let hash = ind_keccak(&ind_eth_preimage(text));
    let Some(pk) = ind_recover(&hash, &sig[..64], recid) else { return false };
    let Some(a) = ind_address_of(&pk) else { return false };
    a[..] == addr[..] && ind_verify(&hash, &sig[..64], &pk) == Some(true)
}
